#!/bin/bash
# Offline setup: builds the orchestrator and pre-warms the Go build cache for
# the worker flavours from files on disk only.
set -e
cd "$(dirname "${BASH_SOURCE[0]}")"
export GOFLAGS=-mod=mod GOPROXY=off GOSUMDB=off GOTOOLCHAIN=local GOWORK=off
mkdir -p .work/bin evidence
cd harness
go build -o ../.work/bin/orch.setup ./cmd/orch
go build -tags verif -o ../.work/bin/worker.setup ./cmd/worker
go build -tags verif -race -o ../.work/bin/worker.setup ./cmd/worker
rm -f ../.work/bin/orch.setup ../.work/bin/worker.setup
echo setup ok
