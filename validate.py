#!/opt/veriftools/pyvenv/bin/python
import json,jsonschema,sys,glob
m=json.load(open('/verif/MANIFEST.json')); s=json.load(open('/root/.vp/MANIFEST.schema.json'))
jsonschema.validate(m,s); print("manifest valid")
es=json.load(open('/root/.vp/EVIDENCE.schema.json'))
for f in sorted(glob.glob('/verif/evidence/C*.json')):
    try:
        jsonschema.validate(json.load(open(f)),es); print(f,"valid")
    except Exception as e:
        print(f,"INVALID",str(e)[:300]); sys.exit(1)
