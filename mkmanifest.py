#!/usr/bin/env python3
"""Regenerates /verif/MANIFEST.json from the table below (kept in one place so
that the manifest stays valid while checks are added)."""
import json, subprocess, os

HERE = os.path.dirname(os.path.abspath(__file__))

TB = ("trusted base: encoding/json/strconv/unicode/utf8/math/big of the building toolchain as reference; "
      "the harness' reference routines (cross-checked against std on every input); the Go runtime and race detector; "
      "verdict covers only the executions produced (seeded case lists), JIT/native code is observed through results and faults only")

CHECKS = {
 "C01": dict(level="exploration", design="§4 C01",
   text="Seeded differential monitoring of Unmarshal against encoding/json over freshly compiled decoder programs: random reflect-built types mixed with a catalogue of ~40 named types with (un)marshaling methods, recursive types, embedding and tag edge cases; documents are encoding/json output of random values re-emitted with labelled mutations (exact-agreement regime) plus arbitrary edits (two-bound regime of the leniency clause); six configurations (ConfigStd, ConfigDefault, UseNumber, UseInt64); a third of the cases decode into a pre-populated destination; deep compare distinguishes float bits, nil vs empty, json.Number text.",
   technique="runtime differential monitor vs encoding/json with type-directed document generation and labelled mutations; waiver predicates for listed findings"),
 "C02": dict(level="exploration", design="§4 C02",
   text="Seeded + enumerated monitoring of 25+ JSON-consuming entry points against the two bounds of the property (json.Valid => accept up to 4095 levels; accept => StructOK, a reference structural validator that does not judge string contents): SIMD block sweep (every critical byte at every block offset), unterminated strings of every length, seeded random/mutated/truncated documents, token soups, number spellings, nesting around the limit; avx2, sse and optdec processes.",
   technique="runtime two-bound oracle (encoding/json.Valid above, reference structural validator below) over enumerated block sweeps and seeded mutations; captured bytes of RawMessage/Unmarshaler re-validated"),
 "C03": dict(level="exploration", design="§4 C03",
   text="Seeded differential monitoring of ConfigStd.Marshal against encoding/json.Marshal over freshly compiled encoder programs (random reflect-built types + catalogue with Marshaler/TextMarshaler on value and pointer receivers, erroring and invalid-output marshalers, every map key kind, recursive and embedded types), values passed by value, by pointer, inside []interface{} and inside map[string]interface{}; outputs compared as token streams (numbers byte-exact, strings by denoted value, order exact) and error-or-not; jit, sse and vm processes.",
   technique="runtime differential monitor vs encoding/json.Marshal; token-stream oracle via a reference parser"),
 "C04": dict(level="exploration", design="§4 C04",
   text="Seeded monitoring of encoder.Encode under all 512 option sets (visited round-robin): values without a JSON representation (cycles through pointers/maps/slices/interfaces, chan, func, complex, invalid json.Number) must error under every set; pure random types must yield exactly one well-formed value (valid UTF-8 under ValidateString, no raw <>& under EscapeHTML) that decodes back, with encoding/json and with sonic, to what encoding/json's own round trip gives (float bits, ints, strings, containers; nil slices/maps made empty first under NoNullSliceOrMap); NaN/Inf must error unless EncodeNullForInfOrNan; catalogue types with marshalers are checked for well-formedness.",
   technique="runtime oracle: json.Valid + reference parser + round trip through two decoders; exhaustive over the 2^9 option sets, seeded over values"),
 "C09": dict(level="exploration", design="§4 C09",
   text="History monitoring across fresh processes: every worker process is one history; all processes of a run execute the same probe list (ConfigStd.Marshal by value/pointer/inside interfaces and Unmarshal into fresh and pre-populated destinations over ~45 history-sensitive types - distinct types that print identically (same package base name, function-local types), recursive and mutually recursive types, structs nested beyond the inline depth, >50 fields, embedding, non-empty interfaces, pointer-receiver marshalers, every omitempty kind - plus seeded random types) after different preludes: shuffled/reversed order, pointer-before-value and reverse, decode-before-encode and reverse, PretouchMany of all probe types in one module or in random chunks with MaxInlineDepth in {1,2,3,4,10} and RecursiveDepth in {0,1,2,5}, Pretouch one by one over random subsets, pointer types first, 2100/4400 throw-away types through the encoder and decoder caches (one and two rehashes), probes interleaved with throw-away types and Pretouch of later probe types. Oracle: every probe's digest equals the baseline history's (no prelude, list order; its agreement with encoding/json is counted); in every process each probe is executed a second time after a collection and must repeat its result. jit, vm+optdec and sse processes.",
   technique="cross-process runtime monitoring: offline comparison of per-probe result digests recorded in fresh processes after different histories (baseline vs preludes), plus an in-process repeat-call monitor"),
 "C10": dict(level="exploration", design="§4 C10",
   text="Runtime-cooperation monitoring with the Go runtime's own self-checks as the sanitizer: the same seeded case list (Marshal + decode-back and Unmarshal over 16 callback types - TextMarshaler/TextUnmarshaler map keys of three shapes, json.Marshaler/Unmarshaler with value and pointer receivers, omitzero fields, a struct mixing them with every pointer-carrying field shape - and over random types of the C01/C03 generators) runs in a calm process and in stressed processes: GOGC=1 + GODEBUG=gccheckmark=1,clobberfree=1 + a collector goroutine; SIGPROF at 4000 Hz + all-goroutine stack dumps every 300us; SONIC_SYNC_GC=1 in decode-only processes. Every call runs on a fresh goroutine after 0-110 padding frames; every callback invoked from generated code performs a seeded action (GC; GC+allocation churn that recycles freed slots; 3000-frame recursion = stack copy with generated frames live; debug.Stack/Callers/Stack(all); hand-off collection while parked; nested sonic call). Oracles: worker death (runtime fatal errors, faults) with the running case recorded; per-case digests equal to the calm process'; the last 40 decoded destinations and outputs re-read after later collections; every encoded value encoded again ~40 cases later must give the same text.",
   technique="runtime sanitizer monitoring (Go GC debug checks gccheckmark/clobberfree, forced collections, stack growth/copy/shrink, tracebacks and SIGPROF through generated frames) in crash-isolated child processes + cross-process digest diff vs a calm process + retention/re-encode monitors"),
 "C11": dict(level="exploration", design="§4 C11",
   text="Cross-process equivalence monitoring: the C01 case list is decoded in three processes (jitdec, SONIC_USE_OPTDEC=1, +SONIC_USE_FASTMAP=1) and per-case digests (error-or-not + canonical deep dump) are compared for every json.Valid document; all processes must reject structurally malformed documents. The verif bridge reports the implementation really in use.",
   technique="cross-process digest diff over a shared seeded case list (runtime monitoring of both implementations); bridge-reported configuration"),
 "C12": dict(level="exploration", design="§4 C12",
   text="Cross-process equivalence monitoring: the C03 value list is encoded with encoder.Encode under a random one of the 2^9 option sets in a JIT process and a SONIC_ENCODER_USE_VM=1 process; digests of (error-or-not, output bytes) are compared byte for byte.",
   technique="cross-process digest diff over a shared seeded case list; all 2^9 option sets sampled"),
 "C13": dict(level="exploration", design="§4 C13",
   text="Cross-process equivalence monitoring of every public API backed by a native routine (parse, validate, skip, search, quote, unquote, HTML escape, UTF-8 validation/correction, number parsing and formatting) between an AVX2 process and a SONIC_MODE=noavx2 process, over SIMD block sweeps (all lengths x positions) and seeded random inputs; transcripts include error positions.",
   technique="cross-process transcript digest diff (AVX2 vs SSE tables) over enumerated block sweeps and seeded inputs"),
 "C14": dict(level="exploration", design="§4 C14",
   text="Seeded monitoring of every search entry point (Get, GetFromString, GetCopyFromString, GetWithOptions under all 8 SearchOptions, Node.GetByPath and step-wise Get/Index from lazy, Load()ed and LoadAll()ed roots) against a reference parser with first-occurrence lookup over ~12 paths per document (existing, missing, prefix/case variants, out-of-range, wrong kind), plus every read-only view of the located node (Interface(+UseNumber) vs encoding/json on the span, MarshalJSON tokens, typed accessors, Len, iterators, ForEach, Array/Map, IndexPair) and the Preorder event stream vs a reference tree walk.",
   technique="runtime differential monitor vs a reference parser/path evaluator and encoding/json on the located span; all SearchOptions combinations"),
 "C15": dict(level="exploration", design="§4 C15 + appendix A",
   text="Model-based runtime monitoring of ast.Node: random sequences of 1-30 read and mutate operations (Get, Index, Len, Set, SetByIndex, Add, Unset, UnsetByIndex, Pop, Move, SortKeys, Load, LoadAll, touch reads, iteration; inserted values are fresh raw nodes, constructed nodes, or scalars moved from elsewhere in the same document) applied to the root and to nodes reached from it, on six replicas of the same document that differ only in how they were obtained (raw, search result, Load, LoadAll, constructed, partially touched) and on an ordered-tree model: after every operation all replicas must agree with each other and with the model, after every mutation MarshalJSON must equal the model serialisation, at the end Interface() must equal encoding/json on the model text.",
   technique="model-based runtime monitoring with metamorphic replicas (lazy vs loaded vs constructed) against an executable ordered-tree model"),
 "C17": dict(level="fault_enumeration", design="§4 C17",
   text="Stream decoder: for small inputs every single cut, every pair of cuts with an interleaved empty read, EOF-with-data and a reader FAILURE at every byte position (whole and 1-byte reads) are enumerated; large inputs crossing the 4096/8192/16384-byte buffers get sampled chunkings. Oracle: encoding/json.Decoder driven by the very same reader: same value sequence, same terminal class, injected error returned by identity, logical progress (InputOffset strictly increases), and values returned earlier do not change after later Decode calls (three decoder configurations incl. CopyString+UseNumber). Stream encoder: Writer failing at every write index, short writes, repeated Encode; bytes must equal Marshal (+newline).",
   technique="fault enumeration over reader cut positions and reader/writer failure positions, with encoding/json.Decoder on the same reader as the runtime oracle"),
 "C05": dict(level="exploration", design="§4 C05",
   text="Placement monitoring with guard pages: every input (block sweeps of 6 document shapes and plain strings x length x position x 16 special byte groups, every prefix of seeded documents, seeded random/mutated documents, raw strings up to 9000 bytes, escape bodies, number literals) is run, without copying, through ~45 byte-consuming entry points (validation, decoding into 10 destination kinds under 3 configs, Skip, Get with 7 paths, ast load/search/walk/Preorder, Marshal of RawMessage/Number; Quote, unquote, HTMLEscape, utf8.*, Marshal of string/map key/[]byte/`,string`) on a heap copy and on the same bytes ending exactly at a PROT_NONE page, starting exactly after one, at 4 offsets from a 64-byte boundary followed by continuations that would change the result if read, and 1-40 bytes before a PROT_NONE page with such a fill. The per-API outcome (error class, position, hash of the error text, value digest) must be identical in all placements; an out-of-bounds read next to a guard page is a SIGSEGV that kills the worker, which the orchestrator reports with the input recorded just before. Runs under the AVX2 table, the SSE table and optdec. Two native over-reads found this way are open findings (B42, B43).",
   technique="sanitizer-style runtime monitoring with mmap/mprotect guard pages + placement-invariance oracle (same-process differential over placements)"),
 "C06": dict(level="exploration", design="§4 C06",
   text="Three runtime monitors over seeded histories. (1) Ownership ledger: 4 goroutines per round keep calling 9 encoding entry points (values whose output sizes sit around the 4 KiB initial buffer and on both sides of option.LimitBufferSize, which decides whether a buffer returns to a pool), Unmarshal, ast MarshalJSON/Raw/String, Quote and HTMLEscape; every returned slice/string is recorded with a checksum at return time and re-read in later rounds (12 MiB quick / 48 MiB thorough held per goroutine): a changed checksum means a later call wrote into memory already handed out; a race-detector build of the same workload reports the write when it happens; repeated encodings of the same value must give the same bytes (pool-state independence). (2) Caller buffers with guard pages: EncodeInto / HTMLEscape / utf8.CorrectWith get a destination whose spare capacity (0..72, and +-3 around len/2, len-64, len-32, len, 2*len, 4096) ends exactly at a PROT_NONE page with dirty prior contents and an optional prefix: the result must be prefix+Encode(v) for every capacity and any write outside the capacity faults. (3) Input overwrite: after Unmarshal([]byte) (7 configurations x 2 destination shapes), UnmarshalFromString under CopyString over caller-owned memory, sonic.Get([]byte), GetCopyFromString and GetWithOptions(CopyReturn) over 8 paths, the caller scribbles over its buffer: the decoded values / located nodes must not change. Runs: default pools, lowered LimitBufferSize, VM encoder, SSE table, optdec, race build.",
   technique="runtime monitors: checksum ledger over returned memory under concurrent pool churn + Go race detector; mmap/mprotect guard pages behind caller buffers; input-overwrite differential"),
 "C07": dict(level="exploration", design="§4 C07",
   text="Hostile-input runtime monitoring in child processes: one long sequence of inputs per worker (random bytes, token soup, mutated/truncated/valid/block documents, raw and escaped string bodies, nesting of 2047..8192 and 65535/65536 levels around every documented limit with 5 push shapes x 7 cores x complete/partial/no closers x a sibling after the deep member, nesting of 5000..300000 levels (thorough: 2,000,000), strings/numbers/objects/white space of 1e3..1e6 bytes), each through ~45 entry points in the same process (so that pooled state of a failed call meets the next call), and every 5th case a hostile Go value (cycles through pointers/maps/slices/interfaces, values nested up to 1e5 (thorough 1e6) levels, long linked lists, Marshalers returning garbage, chan/func, random catalogue values) through 7 encoding entry points. Oracles: recover() around every call; worker death (fault, stack exhaustion) reported with the input recorded just before; the watchdog (a hang is a violation here); bounded progress of stream Decode loops; cycles must be errors; every returned error: Error()/Description() return, stay <= 4096 bytes whatever the input size, and the position lies inside the source the error carries.",
   technique="runtime monitoring under hostile workloads in crash-isolated child processes: recover/crash/watchdog oracles + error-value well-formedness assertions"),
 "C08": dict(level="exploration", design="§4 C08",
   text="Two runtime monitors in fresh processes. (1) Linearizability of the RCU program cache: histories of concurrent Get/Compute calls on a private instance of the real cache (verifbridge.PCache), 2-12 goroutines over 1-40 keys with unique values, yielding/failing compute functions, every 5th history with 300-3000 keys to force copy-on-write growth and rehash under lock-free readers; recorded at the client boundary with an atomic logical clock and checked with porcupine v1.3.0 (partitioned by key) against a sequential map; checker timeouts are inconclusive. (2) Sequential oracle for the codecs: 2-16 goroutines released by a barrier run Marshal/Encode/Unmarshal/Pretouch/Valid/Get over types no codec exists for yet (fresh reflect.StructOf types; first rounds of each process: the recursive and embedded catalogue types), then each call is repeated alone and must give the identical result. Race-detector builds of the same workload (JIT and VM+optdec) report data races on caches, pools and generated-code tables, deduplicated by the innermost sonic frames.",
   technique="Go race detector + porcupine linearizability check of recorded client-boundary histories + sequential-oracle comparison under barrier-released contention"),
 "C16": dict(level="exploration", design="§4 C16",
   text="Concurrent-read monitoring of ast nodes: per case one shared node in its raw state, obtained in one of the 5 documented ways (NewRawConcurrentRead, Searcher{ConcurrentRead}, GetWithOptions(ConcurrentRead), after LoadAll(), after Load()), at the root or a seeded sub-path of documents (wide objects around the 16-pair index threshold with escaped keys, arrays, scalars, structure-random documents), is read by 2-12 goroutines released by a barrier; each runs the whole operation list (~40 reads: GetByPath or step-wise Get/Index along existing/missing/edge paths x Raw, Interface, InterfaceUseNumber, MarshalJSON, typed accessors by kind, Map, Array, TypeSafe/Valid, first child) in its own order. Oracle: the same read on a private identically obtained node, single-threaded, computed beforehand (JSON texts compared as token streams). The race-detector build (GOMAXPROCS=4) reports unsynchronised accesses of the raw->parsed conversion, deduplicated by innermost sonic frames.",
   technique="Go race detector + sequential-oracle comparison under barrier-released concurrent readers"),
 "C18": dict(level="exploration", design="§4 C18",
   text="Metamorphic runtime monitoring of the 16 Config switches: for a switch S and a random setting R of the 15 others, the same value/document is run with R and R+S in the same process and the difference must be exactly S's documented effect (EscapeHTML == json.HTMLEscape(out_R); SortMapKeys reorders members only; NoNullSliceOrMap == out_R of the value with nil containers made empty; ValidateString == UTF-8-corrected out_R / decode of the corrected document; EncodeNullForInfOrNan via a sentinel; CompactMarshaler changes no token; marshaler switches inert on marshaler-free types; NoEncoderNewline removes only the stream newline; UseInt64/UseNumber change only interface{} numbers; CopyString/NoValidateJSONSkip inert on valid documents; DisallowUnknownFields agrees with encoding/json on which documents have unknown keys; UseUnicodeErrors inert without lone surrogates and reporting with them; CaseSensitive == encoding/json on the exact-key-filtered document), plus entry-point equivalence (encoder.Encode/EncodeInto/MarshalToString/MarshalIndent/stream encoder vs Froze().Marshal; decoder.Decoder+SetOptions/UnmarshalFromString vs Froze().Unmarshal). Runs in a JIT process and a VM-encoder+optdec process; per-switch 'fired' counters show the switch had something to act on.",
   technique="metamorphic runtime monitor (single-switch relations with encoding/json post-processors as oracles) + entry-point equivalence, seeded over types/values/documents/other switches"),
 "C19": dict(level="exploration", design="§4 C19",
   text="Seeded differential monitoring of every number conversion route (30+ routes per literal: all integer widths, float32/64, json.Number, interface{} under default/UseNumber/UseInt64, string-tagged fields, integer map keys, ast accessors, Interface, Preorder callbacks) against strconv/encoding/json, with math/big-built exact midpoints; formatting of floats/ints byte-for-byte against encoding/json; all 2^32 float32 patterns in the thorough tier (exhaustive for float32 formatting and shortest-text decoding). jit/optdec/vm/sse configurations each get a share.",
   technique="runtime differential monitor vs strconv/encoding/json; exhaustive float32 bit-pattern sweep (thorough); seeded boundary/midpoint literals"),
 "C20": dict(level="exploration", design="§4 C20",
   text="Seeded + enumerated differential monitoring of the real string routines (Quote, unquote, HTMLEscape, utf8.*, and the same routines reached through Marshal/Unmarshal) against reference definitions, at every length 0..L x position x special byte group, rotating alignments and destination capacities, on both SIMD tables. Held-on-observed, not a proof.",
   technique="runtime differential monitor against reference definitions; exhaustive length x position sweep + seeded random strings; both SIMD tables"),
}

NOT_YET = "check not built yet in this round (work in progress; design in DESIGN.md §4)"

def main():
    props = [json.loads(l) for l in open(os.path.join(HERE, "properties.jsonl"))]
    hooks_commits = []
    hp = os.path.join(HERE, "hook_commits.txt")
    if os.path.exists(hp):
        hooks_commits = [l.split()[0] for l in open(hp) if l.strip() and not l.startswith("#")]
    checks = []
    na = []
    for p in props:
        pid = p["id"]
        if pid in CHECKS:
            c = CHECKS[pid]
            checks.append({
                "property_id": pid,
                "quick_cmd": f"./vcheck {pid} quick",
                "thorough_cmd": f"./vcheck {pid} thorough",
                "evidence_file": f"/verif/evidence/{pid}.json",
                "replay_cmd_template": f"./vcheck {pid} --replay {{path}}",
                "engine": "orch+worker",
                "level_claimed": {"category": c["level"], "text": c["text"], "design_ref": c["design"]},
                "level_note": c.get("note", TB),
                "technique": c["technique"],
            })
        else:
            na.append({"property_id": pid, "reason": NA.get(pid, NOT_YET)})
    m = {
        "version": 1,
        "setup_cmd": "./setup.sh",
        "hooks": {
            "guard": "verif",
            "enable": "go build -tags verif (the orchestrator builds harness/cmd/worker with -tags verif against /repo via replace directives)",
            "baseline_off_cmd": "/verif/baseline_off.sh",
            "source_commits": hooks_commits,
            "add_only": True,
        },
        "engines": [
            {"name": "orch+worker", "path": "/verif/harness", "serves_properties": sorted(CHECKS.keys()),
             "kind_free_text": "Go orchestrator (no sonic linked) that runs deterministic seeded case lists in child worker processes linking /repo with -tags verif; in-process reference oracles, cross-process digest diffs, race-detector log parsing, porcupine history checking, guard-page placement, Go runtime self-checks as sanitizers"},
        ],
        "checks": checks,
        "not_applicable": na,
        "notes": "All checks: exit 0 held / exit 1 VIOLATION line(s) / exit 2 INCONCLUSIVE (never folded). Known findings live in /verif/known_findings.json. VERIF_SEED selects the seeded case lists.",
    }
    json.dump(m, open(os.path.join(HERE, "MANIFEST.json"), "w"), indent=1)
    print("checks:", len(checks), "not_applicable:", len(na))

NA = {}

if __name__ == "__main__":
    main()
