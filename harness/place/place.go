// Package place positions byte strings in memory: flush against (or a few
// bytes before) an inaccessible page, or at a chosen alignment followed by a
// chosen suffix.
package place

import (
	"syscall"
	"unsafe"
)

const Page = 4096

type region struct {
	mem   []byte // whole mapping, last page is PROT_NONE
	pages int    // usable pages
}

// Arena hands out guard-page placements and recycles the mappings.
// Not safe for concurrent use.
type Arena struct {
	free map[int][]*region
	used []*region
	// Front guard: optionally also protect the page *before* the data pages.
}

func NewArena() *Arena { return &Arena{free: map[int][]*region{}} }

func (a *Arena) get(pages int) *region {
	if l := a.free[pages]; len(l) > 0 {
		r := l[len(l)-1]
		a.free[pages] = l[:len(l)-1]
		a.used = append(a.used, r)
		return r
	}
	// one PROT_NONE page before, `pages` data pages, one PROT_NONE page after
	mem, err := syscall.Mmap(-1, 0, (pages+2)*Page, syscall.PROT_READ|syscall.PROT_WRITE, syscall.MAP_ANON|syscall.MAP_PRIVATE)
	if err != nil {
		panic("place: mmap: " + err.Error())
	}
	if err := syscall.Mprotect(mem[(pages+1)*Page:], syscall.PROT_NONE); err != nil {
		panic("place: mprotect: " + err.Error())
	}
	if err := syscall.Mprotect(mem[:Page], syscall.PROT_NONE); err != nil {
		panic("place: mprotect: " + err.Error())
	}
	r := &region{mem: mem, pages: pages}
	a.used = append(a.used, r)
	return r
}

// Release recycles every placement handed out since the last Release. The
// caller must not keep references into them.
func (a *Arena) Release() {
	for _, r := range a.used {
		a.free[r.pages] = append(a.free[r.pages], r)
	}
	a.used = a.used[:0]
}

// BeforeGuard returns a copy of data that ends exactly gap bytes before an
// inaccessible page. The gap bytes are filled with fill. cap == len.
func (a *Arena) BeforeGuard(data []byte, gap int, fill byte) []byte {
	n := len(data) + gap
	pages := (n + Page - 1) / Page
	if pages == 0 {
		pages = 1
	}
	r := a.get(pages)
	end := (pages + 1) * Page
	start := end - n
	copy(r.mem[start:], data)
	for i := start + len(data); i < end; i++ {
		r.mem[i] = fill
	}
	// poison what precedes the data so that stale content is not mistaken
	for i := Page; i < start; i++ {
		r.mem[i] = 0xA5
	}
	return r.mem[start : start+len(data) : start+len(data)]
}

// AfterGuard returns a copy of data that *starts* exactly at the first
// accessible byte after an inaccessible page (detects reads before the input).
func (a *Arena) AfterGuard(data []byte) []byte {
	pages := (len(data) + Page - 1) / Page
	if pages == 0 {
		pages = 1
	}
	r := a.get(pages)
	copy(r.mem[Page:], data)
	for i := Page + len(data); i < (pages+1)*Page; i++ {
		r.mem[i] = 0x5A
	}
	return r.mem[Page : Page+len(data) : Page+len(data)]
}

// BufferBeforeGuard returns a slice of the given length and capacity whose
// capacity ends exactly at an inaccessible page; the bytes are set to fill.
func (a *Arena) BufferBeforeGuard(length, capacity int, fill byte) []byte {
	pages := (capacity + Page - 1) / Page
	if pages == 0 {
		pages = 1
	}
	r := a.get(pages)
	end := (pages + 1) * Page
	start := end - capacity
	for i := Page; i < end; i++ {
		r.mem[i] = fill
	}
	return r.mem[start : start+length : end]
}

// Aligned returns a copy of data in ordinary heap memory whose first byte is
// at offset off (0..63) from a 64-byte boundary and which is immediately
// followed by suffix. cap == len.
func Aligned(data []byte, off int, suffix []byte) []byte {
	buf := make([]byte, len(data)+len(suffix)+128)
	base := uintptr(unsafe.Pointer(&buf[0]))
	pad := int((64-base%64)%64) + off
	copy(buf[pad:], data)
	copy(buf[pad+len(data):], suffix)
	return buf[pad : pad+len(data) : pad+len(data)]
}

// Str views b as a string without copying.
func Str(b []byte) string {
	if len(b) == 0 {
		// keep the pointer: an empty string header over the placement
		return *(*string)(unsafe.Pointer(&struct {
			p unsafe.Pointer
			n int
		}{unsafe.Pointer(unsafe.SliceData(b)), 0}))
	}
	return unsafe.String(&b[0], len(b))
}
