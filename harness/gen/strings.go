package gen

import "strings"

// Interesting byte groups for string routines.
var specials = []string{
	`"`, `\`, "\x00", "\x1f", "\n", "\t", "\r", "\b", "\f", "\x7f", "<", ">", "&",
	" ", " ", "\xe2\x80", "\xe2", "\xff", "\xc0\x80", "\xed\xa0\x80", "\xf4\x90\x80\x80",
	"é", "中", "😀", "\xf0\x9f\x98", "\x80", "/", "'", "\xef\xbf\xbd", "\xc2", "\xe2\x80\xa7",
}

var fillers = []string{"a", "x", " ", "0", "é", "中", "ab", "\x01", `\`, `"`, "<"}

// RawString produces an arbitrary byte string (may be invalid UTF-8, may
// contain control characters) of a length drawn around SIMD block sizes.
func (r *Rng) RawString(maxLen int) string {
	n := r.blockLen(maxLen)
	switch r.Intn(6) {
	case 0: // filler with one special at a random position
		f := fillers[r.Intn(4)]
		b := []byte(strings.Repeat(f, n/len(f)+1)[:n])
		sp := specials[r.Intn(len(specials))]
		if n > 0 {
			p := r.Intn(n)
			b = append(b[:p:p], append([]byte(sp), b[p:]...)...)
		}
		return string(b)
	case 1: // mixture of specials and filler
		var sb strings.Builder
		for sb.Len() < n {
			if r.Chance(1, 4) {
				sb.WriteString(specials[r.Intn(len(specials))])
			} else {
				sb.WriteString(fillers[r.Intn(len(fillers))])
			}
		}
		return sb.String()
	case 2: // random bytes
		b := make([]byte, n)
		for i := range b {
			b[i] = byte(r.U32())
		}
		return string(b)
	case 3: // everything needs escaping (6x expansion)
		sp := []string{"\x00", "\x01", "\x1f", "<", "&", " ", `"`, `\`}[r.Intn(8)]
		return strings.Repeat(sp, n/len(sp)+1)[:n/len(sp)*len(sp)]
	case 4: // mostly ASCII text
		b := make([]byte, n)
		for i := range b {
			b[i] = byte(r.Range(0x20, 0x7e))
		}
		return string(b)
	}
	// valid UTF-8 multi-byte text
	var sb strings.Builder
	for sb.Len() < n {
		switch r.Intn(5) {
		case 0:
			sb.WriteRune(rune(r.Range(0x20, 0x7e)))
		case 1:
			sb.WriteRune(rune(r.Range(0x80, 0x7ff)))
		case 2:
			sb.WriteRune(rune(r.Range(0x800, 0xd7ff)))
		case 3:
			sb.WriteRune(rune(r.Range(0xe000, 0xffff)))
		default:
			sb.WriteRune(rune(r.Range(0x10000, 0x10ffff)))
		}
	}
	return sb.String()
}

// blockLen draws a length with emphasis on the neighbourhoods of 16/32/64
// multiples.
func (r *Rng) blockLen(maxLen int) int {
	if maxLen <= 0 {
		return 0
	}
	switch r.Intn(4) {
	case 0:
		return r.Intn(min(maxLen, 20) + 1)
	case 1:
		k := []int{16, 32, 64, 128, 256}[r.Intn(5)]
		n := k*r.Range(1, 3) + r.Range(-2, 2)
		if n > maxLen {
			n = maxLen
		}
		if n < 0 {
			n = 0
		}
		return n
	}
	return r.Intn(maxLen + 1)
}

// EscapedBody produces the body of a string literal (no surrounding quotes)
// exercising every escape form, valid and invalid.
func (r *Rng) EscapedBody(maxParts int) string {
	var sb strings.Builder
	n := r.Range(0, maxParts)
	hex := "0123456789abcdefABCDEF"
	h4 := func() string {
		b := make([]byte, 4)
		for i := range b {
			b[i] = hex[r.Intn(len(hex))]
		}
		return string(b)
	}
	for i := 0; i < n; i++ {
		switch r.Intn(16) {
		case 0:
			sb.WriteString(`\` + string(`"\/bfnrt`[r.Intn(8)]))
		case 1:
			sb.WriteString(`\u` + h4())
		case 2: // valid pair
			sb.WriteString(`\ud8` + h4()[:2] + `\udc` + h4()[:2])
		case 3: // lone high
			sb.WriteString(`\ud8` + h4()[:2])
		case 4: // lone low
			sb.WriteString(`\udc` + h4()[:2])
		case 5: // high followed by non-low escape
			sb.WriteString(`\ud8` + h4()[:2] + `\u00` + h4()[:2])
		case 6: // high followed by other escape/char
			sb.WriteString(`\ud8` + h4()[:2] + []string{`\n`, `a`, `\`, `\u`, `\ud`}[r.Intn(5)])
		case 7: // malformed
			sb.WriteString([]string{`\`, `\x`, `\u`, `\u1`, `\u12`, `\u123`, `\u12g4`, `\U0041`, `\ `, `\0`, `\a`, `\'`}[r.Intn(12)])
		case 8, 9, 10:
			sb.WriteString(strings.Repeat(fillers[r.Intn(4)], r.Range(1, 40)))
		case 11:
			sb.WriteString(specials[r.Intn(len(specials))])
		case 12:
			sb.WriteString(`\u0000`)
		case 13:
			sb.WriteString(`\\`)
		case 14:
			sb.WriteString(`\"`)
		default:
			sb.WriteString(`􏿿`)
		}
	}
	return sb.String()
}
