package gen

import (
	"math"
	"math/big"
	"strconv"
	"strings"
)

// NumberLiteral produces a syntactically valid JSON number literal chosen to
// stress conversion: boundary integers, long mantissas, extreme exponents,
// halfway cases, subnormals.
func (r *Rng) NumberLiteral() string {
	switch r.Intn(16) {
	case 0: // boundary integers of every width, +-1
		w := []uint{8, 16, 32, 64}[r.Intn(4)]
		var v big.Int
		switch r.Intn(4) {
		case 0: // max signed
			v.Lsh(big.NewInt(1), w-1)
			v.Sub(&v, big.NewInt(1))
		case 1: // min signed
			v.Lsh(big.NewInt(1), w-1)
			v.Neg(&v)
		case 2: // max unsigned
			v.Lsh(big.NewInt(1), w)
			v.Sub(&v, big.NewInt(1))
		default:
			v.SetInt64(0)
		}
		v.Add(&v, big.NewInt(int64(r.Range(-2, 2))))
		return v.String()
	case 1: // small ints
		return strconv.Itoa(r.Range(-300, 70000))
	case 2: // random int64 / uint64
		if r.Bool() {
			return strconv.FormatInt(int64(r.U64()), 10)
		}
		return strconv.FormatUint(r.U64(), 10)
	case 3: // integer valued but spelled as float
		return strconv.Itoa(r.Range(-300, 300)) + []string{".0", "e0", "E+0", ".00e-0", "e1", "e2", ".5e1", "e-1"}[r.Intn(8)]
	case 4: // 17-21 digit mantissas
		return r.digits(r.Range(15, 22), true) + r.maybeFrac(6) + r.maybeExp(30)
	case 5: // very long mantissas (beyond the 800-digit buffer too)
		n := []int{30, 100, 300, 767, 768, 769, 799, 800, 801, 1100}[r.Intn(10)]
		s := r.digits(n, true)
		if r.Bool() {
			p := r.Range(1, len(s)-1)
			s = s[:p] + "." + s[p:]
		}
		return r.sign() + s + r.maybeExp(400)
	case 6: // extreme exponents
		e := []int{-400, -330, -325, -324, -323, -308, -307, 307, 308, 309, 310, 400, 4000, -4000}[r.Intn(14)] + r.Range(-2, 2)
		return r.sign() + r.digits(r.Range(1, 18), true) + r.maybeFrac(18) + "e" + strconv.Itoa(e)
	case 7: // long zero runs
		z := strings.Repeat("0", r.Range(1, 400))
		switch r.Intn(3) {
		case 0:
			return r.sign() + "0." + z + r.digits(r.Range(1, 20), true) + r.maybeExp(300)
		case 1:
			return r.sign() + r.digits(r.Range(1, 5), true) + z + r.maybeFrac(3) + r.maybeExp(300)
		}
		return r.sign() + r.digits(r.Range(1, 5), true) + "." + z + r.digits(r.Range(0, 3), false) + "1" + r.maybeExp(300)
	case 8: // exact float64 midpoints +- epsilon
		return r.midpoint64()
	case 9: // exact float32 midpoints +- epsilon
		return r.midpoint32()
	case 10: // shortest repr of interesting floats
		f := r.InterestingFloat64()
		return strconv.FormatFloat(f, byte("eEfg"[r.Intn(4)]), -1, 64)
	case 11: // float32 shortest
		f := r.InterestingFloat32()
		return strconv.FormatFloat(float64(f), byte("eEfg"[r.Intn(4)]), -1, 32)
	case 12: // zeros
		return []string{"0", "-0", "0.0", "-0.0", "0e0", "-0e-0", "0E+99999", "-0.000e-9999", "0.0000000000000000000000000000000", "0e400", "-0e-400"}[r.Intn(11)]
	case 13: // subnormal / min normal boundaries
		xs := []string{"4.9406564584124654e-324", "2.4703282292062327e-324", "2.4703282292062328e-324", "2.2250738585072014e-308", "2.2250738585072011e-308",
			"2.225073858507201136057409796709131975934819546351645648023426109724822222021076945516529523908135087914149158913039621106870086438694594645527657207407820621743379988141063267329253552286881372149012981122451451889849057222307285255133155755015914397476397983411801999323962548289017107081850690630666655994938275772572015763062690663332647565300009245888316433037779791869612049497390377829704905051080609940730262937128958950003583799967207254304360284078895771796150945516748243471030702609144621572289880258182545180325707018860872113128079512233426288368622321503775666622503982534335974568884423900265498198385487948292206894721689831099698365846814022854243330660339850886445804001034933970427567186443383770486037861622771738545623065874679014086723327636718749999999999999999999999999999999999999e-308",
			"1.7976931348623157e308", "1.7976931348623158e308", "1.7976931348623159e308", "1.797693134862315807e308", "1.797693134862315808e308",
			"3.4028234663852886e38", "3.4028235677973366e38", "3.40282356779733661637539395458142568447e38", "3.4028235677973367e38", "1.401298464324817e-45", "7.006492321624085e-46", "7.006492321624086e-46"}
		return r.sign() + xs[r.Intn(len(xs))]
	case 14: // Eisel-Lemire fallback flavoured: 19 digits with exponent
		return r.sign() + r.digits(19, true) + "e" + strconv.Itoa(r.Range(-342, 308))
	}
	// plain decimal
	return r.sign() + r.digits(r.Range(1, 10), true) + r.maybeFrac(12) + r.maybeExp(40)
}

func (r *Rng) sign() string {
	if r.Chance(1, 3) {
		return "-"
	}
	return ""
}

func (r *Rng) digits(n int, noLeadingZero bool) string {
	if n <= 0 {
		return ""
	}
	b := make([]byte, n)
	for i := range b {
		b[i] = byte('0' + r.Intn(10))
	}
	switch r.Intn(6) {
	case 0:
		for i := 1; i < n; i++ {
			b[i] = '9'
		}
	case 1:
		for i := 1; i < n; i++ {
			b[i] = '0'
		}
	}
	if noLeadingZero && b[0] == '0' {
		b[0] = byte('1' + r.Intn(9))
	}
	return string(b)
}

func (r *Rng) maybeFrac(max int) string {
	if r.Bool() {
		return ""
	}
	return "." + r.digits(r.Range(1, max), false)
}

func (r *Rng) maybeExp(max int) string {
	if r.Bool() {
		return ""
	}
	e := r.Range(-max, max)
	s := []string{"e", "E"}[r.Intn(2)]
	if e >= 0 && r.Bool() {
		s += "+"
	}
	return s + strconv.Itoa(e)
}

// midpoint64 returns the exact decimal expansion of the midpoint between two
// adjacent float64 values, optionally perturbed in a far digit.
func (r *Rng) midpoint64() string {
	var f float64
	for {
		f = math.Abs(r.InterestingFloat64())
		if f != 0 && !math.IsInf(f, 0) && f < math.MaxFloat64 {
			break
		}
	}
	next := math.Nextafter(f, math.Inf(1))
	a := new(big.Float).SetPrec(4000).SetFloat64(f)
	b := new(big.Float).SetPrec(4000).SetFloat64(next)
	m := new(big.Float).SetPrec(4000).Add(a, b)
	m.Quo(m, big.NewFloat(2))
	return r.perturb(m)
}

func (r *Rng) midpoint32() string {
	var f float32
	for {
		f = r.InterestingFloat32()
		if f < 0 {
			f = -f
		}
		if f != 0 && f < math.MaxFloat32 {
			break
		}
	}
	next := math.Nextafter32(f, float32(math.Inf(1)))
	a := new(big.Float).SetPrec(2000).SetFloat64(float64(f))
	b := new(big.Float).SetPrec(2000).SetFloat64(float64(next))
	m := new(big.Float).SetPrec(2000).Add(a, b)
	m.Quo(m, big.NewFloat(2))
	return r.perturb(m)
}

func (r *Rng) perturb(m *big.Float) string {
	s := m.Text('e', 1150) // exact midpoints have at most ~1075 significant digits
	// strip trailing zeros of the mantissa
	ei := strings.IndexByte(s, 'e')
	mant, exp := s[:ei], s[ei:]
	mant = strings.TrimRight(mant, "0")
	if strings.HasSuffix(mant, ".") {
		mant += "0"
	}
	switch r.Intn(4) {
	case 0: // exact
	case 1: // just above, far away digit
		mant += strings.Repeat("0", r.Range(0, 60)) + "1"
	case 2: // just below: decrement last digit, append 9s
		b := []byte(mant)
		for i := len(b) - 1; i >= 0; i-- {
			if b[i] == '.' {
				continue
			}
			if b[i] > '0' {
				b[i]--
				break
			}
			b[i] = '9'
		}
		mant = string(b) + strings.Repeat("9", r.Range(1, 60))
	default: // truncated to k digits
		k := r.Range(17, 40)
		if len(mant) > k {
			mant = mant[:k]
		}
	}
	return r.sign() + mant + exp
}

// BadNumber produces malformed number spellings.
func (r *Rng) BadNumber() string {
	xs := []string{"01", "-01", "00", "-", "+1", "1.", ".5", "1e", "1e+", "1.e3", "-.5", "1.5.5", "1e5.5", "0x10", "1_000", "1e1e1", "--1", "Infinity", "NaN", "-Infinity", "1,5", "1 2", "٣", "1e-", "0.e1", "-0.", "1E", "0e", "-00", "1.0e+-1"}
	return xs[r.Intn(len(xs))]
}
