package gen

import (
	"strconv"
	"strings"
	"unicode"
	"unicode/utf8"
)

// Tree is a minimal JSON tree used to re-emit a document with labelled
// mutations (harness/ref has the parser; this mirror avoids an import cycle).
type Tree struct {
	Kind  int // 0 null 1 bool 2 num 3 str 4 arr 5 obj
	B     bool
	Text  string // number text or decoded string
	Elems []*Tree
	Keys  []string
}

// RemixOpts selects which mutation families may be applied.
type RemixOpts struct {
	Structure bool // unknown fields, wrong kinds, nulls, duplicates, extra/missing elements
	Keys      bool // case variants, escaped key spellings
	Numbers   bool // number re-spellings, out-of-range numbers
	WS        bool
	Content   int // 0 none, 1 inject raw control chars / invalid UTF-8 into string VALUES (never keys)
	Rate      int // mutations happen with probability 1/Rate at each site
	NoDup     bool // never duplicate a key
}

// Remix labels
type RemixLog struct {
	Applied []string
}

func (l *RemixLog) add(s string) {
	if len(l.Applied) < 12 {
		l.Applied = append(l.Applied, s)
	}
}

func (r *Rng) hit(o *RemixOpts) bool {
	n := o.Rate
	if n <= 0 {
		n = 8
	}
	return r.Chance(1, n)
}

// Remix re-serialises t applying random mutations.
func (r *Rng) Remix(t *Tree, o *RemixOpts, log *RemixLog) string {
	var sb strings.Builder
	r.remix(&sb, t, o, log, 0)
	return sb.String()
}

func (r *Rng) rws(o *RemixOpts) string {
	if !o.WS || r.Chance(3, 4) {
		return ""
	}
	return []string{" ", "\n", "\t", "  ", "\r\n"}[r.Intn(5)]
}

func (r *Rng) otherKind(depth int) string {
	switch r.Intn(9) {
	case 0:
		return "null"
	case 1:
		return "true"
	case 2:
		return r.SimpleNumber()
	case 3:
		return jsonQuote(strings.ToValidUTF8(sampleStrings[r.Intn(len(sampleStrings))], "?"))
	case 4:
		return "[]"
	case 5:
		return "{}"
	case 6:
		return `[1,"a",{"k":[null]}]`
	case 7:
		return `{"a":1,"b":{"c":[]},"id":"x"}`
	}
	return `"` + r.SimpleNumber() + `"`
}

func (r *Rng) emitString(sb *strings.Builder, s string, o *RemixOpts, log *RemixLog, isKey bool) {
	// spelling variants that denote the same string
	if o.Keys && isKey && r.hit(o) && s != "" {
		// escape one rune as \uXXXX
		rs := []rune(s)
		i := r.Intn(len(rs))
		var b strings.Builder
		b.WriteByte('"')
		for j, c := range rs {
			if j == i && c < 0x10000 && c != utf8.RuneError {
				b.WriteString(`\u` + strconv.FormatInt(int64(0x10000+c), 16)[1:])
			} else {
				q := strconv.Quote(string(c))
				b.WriteString(q[1 : len(q)-1])
			}
		}
		b.WriteByte('"')
		// strconv.Quote may emit \x or \U forms that are not JSON; fall back then
		if !strings.Contains(b.String(), `\x`) && !strings.Contains(b.String(), `\U`) && !strings.Contains(b.String(), `\a`) && !strings.Contains(b.String(), `\v`) {
			log.add("escaped-key")
			sb.WriteString(b.String())
			return
		}
	}
	if o.Content == 1 && !isKey && r.hit(o) {
		bad := []string{"\x01", "\x1f", "\n", "\t", "\xff", "\xc0\x80", "\xed\xa0\x80", "\xf0\x9f"}[r.Intn(8)]
		log.add("string-content-defect")
		q := jsonQuote(s)
		p := 1 + r.Intn(len(q)-1)
		// do not split an escape sequence: insert only after a non-backslash context
		for p > 1 && (q[p-1] == '\\' || (p >= 2 && strings.LastIndex(q[:p], `\u`) >= p-5 && strings.LastIndex(q[:p], `\u`) >= 0)) {
			p--
		}
		sb.WriteString(q[:p] + bad + q[p:])
		return
	}
	sb.WriteString(jsonQuote(s))
}

// jsonQuote is a minimal JSON string quoting (valid UTF-8 input expected;
// invalid bytes are passed through).
func jsonQuote(s string) string {
	var b strings.Builder
	b.WriteByte('"')
	for i := 0; i < len(s); i++ {
		c := s[i]
		switch {
		case c == '"' || c == '\\':
			b.WriteByte('\\')
			b.WriteByte(c)
		case c < 0x20:
			b.WriteString(`\u00` + string("0123456789abcdef"[c>>4]) + string("0123456789abcdef"[c&15]))
		default:
			b.WriteByte(c)
		}
	}
	b.WriteByte('"')
	return b.String()
}

func caseVariant(r *Rng, s string) string {
	rs := []rune(s)
	if len(rs) == 0 {
		return s
	}
	switch r.Intn(4) {
	case 0:
		return strings.ToUpper(s)
	case 1:
		return strings.ToLower(s)
	case 2:
		i := r.Intn(len(rs))
		if unicode.IsUpper(rs[i]) {
			rs[i] = unicode.ToLower(rs[i])
		} else {
			rs[i] = unicode.ToUpper(rs[i])
		}
		return string(rs)
	}
	// special folds: K <-> Kelvin sign, s <-> long s
	s = strings.NewReplacer("k", "K", "K", "K", "s", "ſ", "S", "ſ").Replace(s)
	return s
}

func (r *Rng) respellNumber(text string, o *RemixOpts, log *RemixLog) string {
	if !o.Numbers || !r.hit(o) {
		return text
	}
	isInt := !strings.ContainsAny(text, ".eE")
	switch r.Intn(7) {
	case 0:
		if isInt {
			log.add("num.0")
			return text + ".0"
		}
	case 1:
		if isInt {
			log.add("num-e0")
			return text + "e0"
		}
	case 2:
		if isInt {
			log.add("num-E+00")
			return text + "E+00"
		}
	case 3:
		log.add("num-huge")
		return text + strings.Repeat("0", r.Range(20, 40))
	case 4:
		log.add("num-overflow-float")
		return "1e" + strconv.Itoa(r.Range(309, 999))
	case 5:
		log.add("num-fraction")
		if isInt {
			return text + ".5"
		}
	case 6:
		log.add("num-neg")
		if strings.HasPrefix(text, "-") {
			return text[1:]
		}
		return "-" + text
	}
	return text
}

func (r *Rng) remix(sb *strings.Builder, t *Tree, o *RemixOpts, log *RemixLog, depth int) {
	if o.Structure && depth > 0 && r.hit(o) && r.Chance(1, 2) {
		log.add("wrong-kind")
		sb.WriteString(r.otherKind(depth))
		return
	}
	switch t.Kind {
	case 0:
		sb.WriteString("null")
	case 1:
		if t.B {
			sb.WriteString("true")
		} else {
			sb.WriteString("false")
		}
	case 2:
		sb.WriteString(r.respellNumber(t.Text, o, log))
	case 3:
		r.emitString(sb, t.Text, o, log, false)
	case 4:
		sb.WriteByte('[')
		sb.WriteString(r.rws(o))
		n := 0
		emit := func(e *Tree) {
			if n > 0 {
				sb.WriteByte(',')
				sb.WriteString(r.rws(o))
			}
			n++
			r.remix(sb, e, o, log, depth+1)
			sb.WriteString(r.rws(o))
		}
		for _, e := range t.Elems {
			if o.Structure && r.hit(o) {
				switch r.Intn(3) {
				case 0:
					log.add("drop-elem")
					continue
				case 1:
					log.add("extra-elem")
					emit(e)
				case 2:
					log.add("null-elem")
					if n > 0 {
						sb.WriteByte(',')
					}
					n++
					sb.WriteString("null")
					continue
				}
			}
			emit(e)
		}
		if o.Structure && r.hit(o) && len(t.Elems) > 0 {
			log.add("extra-elems")
			for k := r.Range(1, 4); k > 0; k-- {
				emit(t.Elems[r.Intn(len(t.Elems))])
			}
		}
		sb.WriteByte(']')
	case 5:
		sb.WriteByte('{')
		sb.WriteString(r.rws(o))
		n := 0
		emit := func(k string, e *Tree) {
			if n > 0 {
				sb.WriteByte(',')
				sb.WriteString(r.rws(o))
			}
			n++
			r.emitString(sb, k, o, log, true)
			sb.WriteString(r.rws(o))
			sb.WriteByte(':')
			sb.WriteString(r.rws(o))
			if e == nil {
				sb.WriteString(r.otherKind(depth))
			} else {
				r.remix(sb, e, o, log, depth+1)
			}
			sb.WriteString(r.rws(o))
		}
		order := make([]int, len(t.Elems))
		for i := range order {
			order[i] = i
		}
		if o.Structure && r.hit(o) {
			log.add("reorder")
			order = r.Perm(len(t.Elems))
		}
		for _, i := range order {
			k, e := t.Keys[i], t.Elems[i]
			if o.Structure && r.hit(o) {
				switch r.Intn(4) {
				case 0:
					log.add("unknown-field")
					emit("unknown_"+k, nil)
				case 1:
					if o.NoDup {
						break
					}
					log.add("dup-key")
					emit(k, e)
				case 2:
					log.add("drop-field")
					continue
				case 3:
					log.add("null-field")
					if n > 0 {
						sb.WriteByte(',')
					}
					n++
					r.emitString(sb, k, o, log, true)
					sb.WriteString(":null")
					continue
				}
			}
			if o.Keys && r.hit(o) {
				log.add("case-variant")
				k = caseVariant(r, k)
			}
			emit(k, e)
		}
		sb.WriteByte('}')
	}
}
