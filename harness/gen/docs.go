package gen

import (
	"strconv"
	"strings"
)

// DocOpts tunes the structure-random document generator.
type DocOpts struct {
	MaxDepth   int
	MaxWidth   int
	MaxStr     int
	WS         bool // sprinkle insignificant white space
	DupKeys    bool // allow duplicate keys
	EscapeKeys bool // allow escapes inside keys
	BigWS      bool // occasionally emit white-space runs longer than a SIMD block
}

var DefaultDoc = DocOpts{MaxDepth: 5, MaxWidth: 6, MaxStr: 24, WS: true, DupKeys: true, EscapeKeys: true, BigWS: true}

var keyPool = []string{"a", "b", "id", "name", "A", "Id", "ID", "key", "", "k1", "k2", "x", "y", "data", "ab", "abc", "abcd", "é", "K", "long_key_name_0123456789abcdef", "a b", "0", "1"}

// ValidString produces a strictly valid JSON string literal (with quotes):
// valid UTF-8, no raw control characters, only legal escapes.
func (r *Rng) ValidString(maxLen int) string {
	var sb strings.Builder
	sb.WriteByte('"')
	n := r.SmallLen(maxLen)
	if r.Chance(1, 12) {
		n = r.blockLen(maxLen * 6)
	}
	for sb.Len() < n+1 {
		switch r.Intn(24) {
		case 0:
			sb.WriteString(`\` + string(`"\/bfnrt`[r.Intn(8)]))
		case 1:
			sb.WriteString(`\u00` + string("0123456789abcdef"[r.Intn(16)]) + string("0123456789ABCDEF"[r.Intn(16)]))
		case 2:
			sb.WriteString(`😀`)
		case 3:
			sb.WriteString([]string{"é", "中", "😀", " ", "�", "߿", "ࠀ"}[r.Intn(7)])
		case 4:
			sb.WriteString([]string{"[", "]", "{", "}", ",", ":", " ", "\\\"", "\\\\", "/", "<", ">", "&", "'"}[r.Intn(14)])
		case 5:
			sb.WriteString(`\u` + []string{"0041", "00e9", "4e2d", "2028", "FFFD", "0000", "001f", "d7ff", "e000"}[r.Intn(9)])
		default:
			sb.WriteByte(byte(r.Range(0x20, 0x7e)))
			if b := sb.String(); b[len(b)-1] == '"' || b[len(b)-1] == '\\' {
				// replace the raw quote/backslash by a harmless letter
				s := b[:len(b)-1] + "q"
				sb.Reset()
				sb.WriteString(s)
			}
		}
	}
	sb.WriteByte('"')
	return sb.String()
}

func (r *Rng) ws(o *DocOpts) string {
	if !o.WS || r.Chance(2, 3) {
		return ""
	}
	if o.BigWS && r.Chance(1, 40) {
		return strings.Repeat([]string{" ", "\n", "\t", "\r", " \n"}[r.Intn(5)], r.Range(30, 140))
	}
	return []string{" ", "\n", "\t", "\r", "  ", "\r\n", " \t "}[r.Intn(7)]
}

// SimpleNumber is a short valid number literal.
func (r *Rng) SimpleNumber() string {
	switch r.Intn(8) {
	case 0:
		return "0"
	case 1:
		return strconv.Itoa(r.Range(-1000, 1000))
	case 2:
		return strconv.FormatInt(int64(r.U64()), 10)
	case 3:
		return strconv.FormatFloat(float64(r.Range(-99999, 99999))/1000, 'f', -1, 64)
	case 4:
		return strconv.Itoa(r.Range(1, 99)) + "e" + strconv.Itoa(r.Range(-30, 30))
	case 5:
		return "-0"
	case 6:
		return strconv.Itoa(r.Range(-9, 9)) + "." + strconv.Itoa(r.Range(0, 999)) + "E+" + strconv.Itoa(r.Range(0, 20))
	}
	return strconv.FormatUint(r.U64()>>uint(r.Intn(64)), 10)
}

// Doc produces a valid JSON document (one value, optional surrounding space).
func (r *Rng) Doc(o *DocOpts) string {
	var sb strings.Builder
	sb.WriteString(r.ws(o))
	r.value(&sb, o, 0)
	sb.WriteString(r.ws(o))
	return sb.String()
}

func (r *Rng) value(sb *strings.Builder, o *DocOpts, depth int) {
	k := r.Intn(10)
	if depth >= o.MaxDepth && k >= 6 {
		k = r.Intn(6)
	}
	switch k {
	case 0:
		sb.WriteString("null")
	case 1:
		sb.WriteString([]string{"true", "false"}[r.Intn(2)])
	case 2, 3:
		sb.WriteString(r.SimpleNumber())
	case 4, 5:
		sb.WriteString(r.ValidString(o.MaxStr))
	case 6, 7:
		sb.WriteByte('[')
		n := r.SmallLen(o.MaxWidth)
		sb.WriteString(r.ws(o))
		for i := 0; i < n; i++ {
			if i > 0 {
				sb.WriteByte(',')
				sb.WriteString(r.ws(o))
			}
			r.value(sb, o, depth+1)
			sb.WriteString(r.ws(o))
		}
		sb.WriteByte(']')
	default:
		sb.WriteByte('{')
		n := r.SmallLen(o.MaxWidth)
		if r.Chance(1, 30) {
			n = r.Range(15, 40) // both sides of the 16-pair index threshold
		}
		sb.WriteString(r.ws(o))
		used := map[string]bool{}
		for i := 0; i < n; i++ {
			if i > 0 {
				sb.WriteByte(',')
				sb.WriteString(r.ws(o))
			}
			key := keyPool[r.Intn(len(keyPool))]
			if r.Chance(1, 3) {
				key += strconv.Itoa(r.Intn(30))
			}
			if !o.DupKeys {
				for used[key] {
					key += "_"
				}
				used[key] = true
			}
			if o.EscapeKeys && r.Chance(1, 10) {
				sb.WriteString(r.ValidString(8))
			} else {
				sb.WriteString(strconv.Quote(key))
			}
			sb.WriteString(r.ws(o))
			sb.WriteByte(':')
			sb.WriteString(r.ws(o))
			r.value(sb, o, depth+1)
			sb.WriteString(r.ws(o))
		}
		sb.WriteByte('}')
	}
}

var soupTokens = []string{"{", "}", "[", "]", ",", ":", `"`, `"a"`, `""`, "1", "0", "-", "-1", "1.5", "1e5", "true", "false", "null", "tru", "nul", "fals", " ", "\n",
	`"\"`, `\`, `"\u00`, "01", "1.", ".5", "e", "+1", "{}", "[]", `{"a":1}`, `[1,2]`, "\x00", "\xff", "/", "//", "/**/", "NaN", "Infinity", "'a'", "a", "\t", "\r", "\x0b", "\x0c", " ", "\ufeff"}

// Soup concatenates random tokens: mostly invalid documents that look like JSON.
func (r *Rng) Soup(maxTokens int) string {
	var sb strings.Builder
	n := r.Range(1, maxTokens)
	for i := 0; i < n; i++ {
		sb.WriteString(soupTokens[r.Intn(len(soupTokens))])
	}
	return sb.String()
}

// Mutate applies one structural edit to a document: delete/insert/replace one
// byte, truncate, duplicate a span, or swap two bytes.
func (r *Rng) Mutate(doc string) string {
	if len(doc) == 0 {
		return soupTokens[r.Intn(len(soupTokens))]
	}
	b := []byte(doc)
	p := r.Intn(len(b))
	structural := `{}[],:"\tfn-0.e `
	switch r.Intn(9) {
	case 0: // delete
		return string(append(b[:p:p], b[p+1:]...))
	case 1: // insert structural
		c := structural[r.Intn(len(structural))]
		return string(append(b[:p:p], append([]byte{c}, b[p:]...)...))
	case 2: // replace by structural
		b[p] = structural[r.Intn(len(structural))]
		return string(b)
	case 3: // truncate
		return string(b[:p])
	case 4: // append garbage
		return doc + []string{"}", "]", ",", "x", `"`, "1", " 1", "\x00", "{}", "null", ":", "\\"}[r.Intn(12)]
	case 5: // replace by arbitrary byte
		b[p] = byte(r.U32())
		return string(b)
	case 6: // delete a structural byte specifically
		var idx []int
		for i, c := range b {
			if strings.IndexByte(`{}[],:"`, c) >= 0 {
				idx = append(idx, i)
			}
		}
		if len(idx) == 0 {
			return string(b[:p])
		}
		q := idx[r.Intn(len(idx))]
		return string(append(b[:q:q], b[q+1:]...))
	case 7: // duplicate a structural byte
		var idx []int
		for i, c := range b {
			if strings.IndexByte(`{}[],:"`, c) >= 0 {
				idx = append(idx, i)
			}
		}
		if len(idx) == 0 {
			return doc + doc
		}
		q := idx[r.Intn(len(idx))]
		return string(append(b[:q:q], append([]byte{b[q]}, b[q:]...)...))
	}
	// prefix garbage
	return []string{"]", "}", ",", "x", ":", "\x00", "\xef\xbb\xbf", "/"}[r.Intn(8)] + doc
}

// BlockDoc builds documents whose critical bytes sit at chosen offsets from
// SIMD block boundaries: a string (or white space, or a number) of length n
// inside a small container, with one special byte group at position p.
func BlockDoc(kind int, n, p int, special string) string {
	if p > n {
		p = n
	}
	switch kind % 6 {
	case 0: // string value
		return `"` + strings.Repeat("a", p) + special + strings.Repeat("a", n-p) + `"`
	case 1: // string as object value followed by more members
		return `{"k":"` + strings.Repeat("b", p) + special + strings.Repeat("b", n-p) + `","z":[1,{"q":null}]}`
	case 2: // key
		return `{"` + strings.Repeat("c", p) + special + strings.Repeat("c", n-p) + `":1}`
	case 3: // white space run then value
		return `[` + strings.Repeat(" ", p) + `1,` + strings.Repeat("\n", n-p) + `2]`
	case 4: // skipped sibling before the wanted value
		return `{"skip":["` + strings.Repeat("d", p) + special + strings.Repeat("d", n-p) + `",{"]":"}"}],"want":true}`
	default: // array of short items
		return `[` + strings.Repeat(`"",`, p) + `"` + special + `"` + strings.Repeat(`,1`, n-p) + `]`
	}
}
