// Package gen holds the deterministic generators shared by all workloads.
// Nothing here links sonic.
package gen

import (
	"math"
	"math/bits"
)

// Rng is a small PCG-XSH-RR 64/32 generator. It is implemented here so that a
// (seed, stream) pair yields the same cases under every toolchain.
type Rng struct {
	state uint64
	inc   uint64
}

// SplitMix64 is used to derive seeds.
func SplitMix64(x uint64) uint64 {
	x += 0x9e3779b97f4a7c15
	z := x
	z = (z ^ (z >> 30)) * 0xbf58476d1ce4e5b9
	z = (z ^ (z >> 27)) * 0x94d049bb133111eb
	return z ^ (z >> 31)
}

// Mix folds several integers into one seed.
func Mix(vs ...uint64) uint64 {
	h := uint64(0x243f6a8885a308d3)
	for _, v := range vs {
		h = SplitMix64(h ^ v)
	}
	return h
}

// HashString is FNV-1a 64.
func HashString(s string) uint64 {
	h := uint64(14695981039346656037)
	for i := 0; i < len(s); i++ {
		h ^= uint64(s[i])
		h *= 1099511628211
	}
	return h
}

func HashBytes(s []byte) uint64 {
	h := uint64(14695981039346656037)
	for i := 0; i < len(s); i++ {
		h ^= uint64(s[i])
		h *= 1099511628211
	}
	return h
}

func New(seed, stream uint64) *Rng {
	r := &Rng{inc: (stream << 1) | 1}
	r.next()
	r.state += SplitMix64(seed)
	r.next()
	return r
}

func (r *Rng) next() uint32 {
	old := r.state
	r.state = old*6364136223846793005 + r.inc
	xs := uint32(((old >> 18) ^ old) >> 27)
	rot := uint32(old >> 59)
	return bits.RotateLeft32(xs, -int(rot))
}

func (r *Rng) U32() uint32 { return r.next() }
func (r *Rng) U64() uint64 { return uint64(r.next())<<32 | uint64(r.next()) }

// Intn returns a value in [0,n). n<=0 yields 0.
func (r *Rng) Intn(n int) int {
	if n <= 1 {
		return 0
	}
	return int(r.U64() % uint64(n))
}

// Range returns a value in [lo,hi].
func (r *Rng) Range(lo, hi int) int {
	if hi <= lo {
		return lo
	}
	return lo + r.Intn(hi-lo+1)
}

func (r *Rng) Bool() bool { return r.next()&1 == 1 }

// Chance is true with probability num/den.
func (r *Rng) Chance(num, den int) bool { return r.Intn(den) < num }

func (r *Rng) Float64() float64 { return float64(r.U64()>>11) / (1 << 53) }

// Pick returns one element index according to weights.
func (r *Rng) Weighted(w []int) int {
	t := 0
	for _, x := range w {
		t += x
	}
	k := r.Intn(t)
	for i, x := range w {
		if k < x {
			return i
		}
		k -= x
	}
	return len(w) - 1
}

func (r *Rng) PickStr(xs []string) string { return xs[r.Intn(len(xs))] }

func (r *Rng) Perm(n int) []int {
	p := make([]int, n)
	for i := range p {
		p[i] = i
	}
	for i := n - 1; i > 0; i-- {
		j := r.Intn(i + 1)
		p[i], p[j] = p[j], p[i]
	}
	return p
}

// SmallLen is a length distribution biased to small values with a tail.
func (r *Rng) SmallLen(max int) int {
	switch r.Intn(10) {
	case 0:
		return 0
	case 1, 2, 3:
		return r.Range(0, min(3, max))
	case 4, 5, 6:
		return r.Range(0, min(8, max))
	case 7, 8:
		return r.Range(0, min(40, max))
	}
	return r.Range(0, max)
}

func min(a, b int) int {
	if a < b {
		return a
	}
	return b
}

// Float64Bits yields interesting float64 values.
func (r *Rng) InterestingFloat64() float64 {
	for {
		f := r.interestingFloat64()
		if f == f && !math.IsInf(f, 0) {
			return f
		}
	}
}

func (r *Rng) interestingFloat64() float64 {
	switch r.Intn(14) {
	case 0:
		return 0
	case 1:
		return math.Copysign(0, -1)
	case 2:
		return float64(r.Range(-1000, 1000))
	case 3:
		return float64(int64(r.U64()))
	case 4:
		return math.Float64frombits(r.U64() & 0x000fffffffffffff) // subnormal
	case 5:
		// powers of ten neighbourhood
		e := r.Range(-330, 310)
		f := math.Pow(10, float64(e))
		return math.Float64frombits(math.Float64bits(f) + uint64(r.Range(-3, 3)))
	case 6:
		// notation thresholds
		xs := []float64{1e21, 1e-6, 9.999999999999999e20, 1.0000000000000001e-6, 1e20, 1e-7, 123456789012345678901.0}
		f := xs[r.Intn(len(xs))]
		if r.Bool() {
			f = -f
		}
		return math.Float64frombits(math.Float64bits(f) + uint64(r.Range(-2, 2)))
	case 7:
		k := r.Range(0, 1023)
		f := math.Ldexp(1, k-r.Range(0, 1074))
		return f + float64(r.Range(-1, 1))
	case 8:
		return math.MaxFloat64
	case 9:
		return math.SmallestNonzeroFloat64
	case 10:
		return float64(r.Range(-99999, 99999)) / math.Pow(10, float64(r.Range(0, 8)))
	case 11:
		return float64(float32(r.Float64()*200 - 100))
	}
	for {
		f := math.Float64frombits(r.U64())
		if !math.IsNaN(f) && !math.IsInf(f, 0) {
			return f
		}
	}
}

func (r *Rng) InterestingFloat32() float32 {
	for {
		f := r.interestingFloat32()
		if f == f && !math.IsInf(float64(f), 0) {
			return f
		}
	}
}

func (r *Rng) interestingFloat32() float32 {
	switch r.Intn(8) {
	case 0:
		return 0
	case 1:
		return float32(math.Copysign(0, -1))
	case 2:
		return float32(r.Range(-1000, 1000))
	case 3:
		return math.Float32frombits(r.U32() & 0x007fffff)
	case 4:
		xs := []float32{1e21, 1e-6, 9.999999e20, 1.0000001e-6, math.MaxFloat32, math.SmallestNonzeroFloat32, 16777216, 16777217}
		return xs[r.Intn(len(xs))]
	case 5:
		return float32(r.Range(-99999, 99999)) / float32(math.Pow(10, float64(r.Range(0, 6))))
	}
	for {
		f := math.Float32frombits(r.U32())
		if f == f && !math.IsInf(float64(f), 0) {
			return f
		}
	}
}
