package gen

import (
	"encoding/json"
	"fmt"
	"math"
	"reflect"
	"strconv"
	"strings"
	"unicode/utf8"
)

// TypeOpts tunes random type construction.
type TypeOpts struct {
	MaxDepth  int
	Catalogue []reflect.Type // named types to mix in
	Erroring  []reflect.Type // types whose codec fails; dosed rarely
	NoMethods bool           // do not use catalogue types (pure reflect types)
	Omitzero  bool           // allow the omitzero tag option
	NoIface   bool
	NoPtrKeys bool // no pointer-typed map keys (encoding/json cannot decode them)
	NoRaw     bool // no json.RawMessage (its bytes are only preserved up to insignificant white space)
	BothKeys bool // cat.Both (json.Marshaler and TextMarshaler) may be a map key
}

var scalarTypes = []reflect.Type{
	reflect.TypeOf(false), reflect.TypeOf(int(0)), reflect.TypeOf(int8(0)), reflect.TypeOf(int16(0)), reflect.TypeOf(int32(0)), reflect.TypeOf(int64(0)),
	reflect.TypeOf(uint(0)), reflect.TypeOf(uint8(0)), reflect.TypeOf(uint16(0)), reflect.TypeOf(uint32(0)), reflect.TypeOf(uint64(0)), reflect.TypeOf(uintptr(0)),
	reflect.TypeOf(float32(0)), reflect.TypeOf(float64(0)), reflect.TypeOf(""),
}

var (
	tNumber   = reflect.TypeOf(json.Number(""))
	tRaw      = reflect.TypeOf(json.RawMessage(nil))
	tBytes    = reflect.TypeOf([]byte(nil))
	tIface    = reflect.TypeOf((*interface{})(nil)).Elem()
	tString   = reflect.TypeOf("")
	keyScalar = []reflect.Type{reflect.TypeOf(""), reflect.TypeOf(int(0)), reflect.TypeOf(int8(0)), reflect.TypeOf(int16(0)), reflect.TypeOf(int32(0)), reflect.TypeOf(int64(0)),
		reflect.TypeOf(uint(0)), reflect.TypeOf(uint8(0)), reflect.TypeOf(uint16(0)), reflect.TypeOf(uint32(0)), reflect.TypeOf(uint64(0)), reflect.TypeOf(uintptr(0))}
)

var fieldNames = []string{"A", "B", "C", "Id", "ID", "Name", "Key", "Value", "X", "Y", "Data", "K", "Ab", "AB", "Foo", "Bar", "Long_field_name_012", "É", "Q1", "Z9"}
var tagNames = []string{"a", "b", "id", "name", "key", "A", "Id", "k", "x y", "é", "K", "ab", "long_key_name_0123456789abcdef", "1", "-", "a-b", "a.b", "a/b", "@t", "", "_", "ſ", "kelvin"}

// Type builds a random type. Every call consumes randomness only from r.
func (r *Rng) Type(o *TypeOpts, depth int) reflect.Type {
	k := r.Intn(24)
	if depth >= o.MaxDepth {
		k = r.Intn(9)
	}
	switch {
	case k < 5:
		return scalarTypes[r.Intn(len(scalarTypes))]
	case k == 5:
		if o.NoRaw {
			return []reflect.Type{tNumber, tBytes, tString}[r.Intn(3)]
		}
		return []reflect.Type{tNumber, tRaw, tBytes, tString, tString}[r.Intn(5)]
	case k == 6:
		if o.NoIface {
			return tString
		}
		return tIface
	case k < 9:
		if !o.NoMethods && len(o.Catalogue) > 0 {
			if len(o.Erroring) > 0 && r.Chance(1, 25) {
				return o.Erroring[r.Intn(len(o.Erroring))]
			}
			return o.Catalogue[r.Intn(len(o.Catalogue))]
		}
		return scalarTypes[r.Intn(len(scalarTypes))]
	case k < 12:
		return reflect.SliceOf(r.Type(o, depth+1))
	case k == 12:
		return reflect.ArrayOf([]int{0, 1, 2, 5}[r.Intn(4)], r.Type(o, depth+1))
	case k < 15:
		return reflect.PtrTo(r.Type(o, depth+1))
	case k < 18:
		return reflect.MapOf(r.KeyType(o), r.Type(o, depth+1))
	}
	return r.StructType(o, depth)
}

// KeyType picks a map key type encoding/json supports.
func (r *Rng) KeyType(o *TypeOpts) reflect.Type {
	if !o.NoMethods && len(o.Catalogue) > 0 && r.Chance(1, 4) {
		// catalogue types usable as keys: string/int kinds and TextMarshalers
		var ks []reflect.Type
		for _, t := range o.Catalogue {
			switch t.Name() {
			case "NamedInt", "NamedUint8", "NamedString", "TextV", "TextKey", "IntKeyText":
				ks = append(ks, t)
			case "ReuseKey":
				if o.BothKeys {
					ks = append(ks, t)
				}
			case "Both":
				// a key type that also is a json.Marshaler (as a key its text method is used,
				// as a value its JSON method); encode direction only
				if o.BothKeys {
					ks = append(ks, t)
				}
			case "TextP":
				if !o.NoPtrKeys {
					ks = append(ks, reflect.PtrTo(t))
				}
			}
		}
		if len(ks) > 0 {
			return ks[r.Intn(len(ks))]
		}
	}
	if r.Chance(1, 2) {
		return tString
	}
	if r.Chance(1, 12) {
		return tNumber
	}
	return keyScalar[r.Intn(len(keyScalar))]
}

func canString(t reflect.Type) bool {
	// Not generated (oracle limitation, see DESIGN §7): `,string` on json.Number
	// (encoding/json stores the unquoted text without validating it) and on types
	// with their own (un)marshaling methods (encoding/json hands `null` to the
	// method, sonic skips it: finding B33, pinned witness).
	if t == tNumber || t.NumMethod() > 0 || reflect.PtrTo(t).NumMethod() > 0 {
		return false
	}
	switch t.Kind() {
	case reflect.Bool, reflect.Int, reflect.Int8, reflect.Int16, reflect.Int32, reflect.Int64, reflect.Uint, reflect.Uint8, reflect.Uint16,
		reflect.Uint32, reflect.Uint64, reflect.Uintptr, reflect.Float32, reflect.Float64, reflect.String:
		return true
	}
	return false
}

// StructType builds a struct with random fields, tags and embedding.
func (r *Rng) StructType(o *TypeOpts, depth int) reflect.Type {
	n := r.SmallLen(7)
	if r.Chance(1, 40) {
		n = r.Range(48, 56) // the field-table cut-over
	}
	var fs []reflect.StructField
	used := map[string]bool{}
	for i := 0; i < n; i++ {
		name := fieldNames[r.Intn(len(fieldNames))]
		if n > len(fieldNames)/2 || used[name] {
			name = name + strconv.Itoa(i)
		}
		for used[name] {
			name += "x"
		}
		used[name] = true
		ft := r.Type(o, depth+1)
		f := reflect.StructField{Name: name, Type: ft}
		switch r.Intn(12) {
		case 0: // unexported
			f.Name = "u" + name
			f.PkgPath = "verifharness/gen"
		case 1, 2: // embedded struct (value or pointer) without methods
			et := r.StructType(&TypeOpts{MaxDepth: o.MaxDepth, NoMethods: true, NoIface: o.NoIface, NoRaw: o.NoRaw, NoPtrKeys: o.NoPtrKeys, Omitzero: o.Omitzero}, depth+1)
			if et.NumField() > 0 && et.NumMethod() == 0 {
				f.Type = et
				if r.Chance(1, 3) {
					f.Type = reflect.PtrTo(et)
				}
				f.Anonymous = true
				f.Name = "Emb" + strconv.Itoa(i)
				// an embedded field built by StructOf needs an exported type name to be
				// promoted; anonymous struct types have none, so encoding/json treats the
				// field by its Name. Keep it simple: tag it half of the time.
			}
		}
		// tags
		if f.PkgPath == "" {
			tag := ""
			switch r.Intn(10) {
			case 0, 1, 2:
				tag = tagNames[r.Intn(len(tagNames))]
			case 3:
				tag = tagNames[r.Intn(len(tagNames))] + ",omitempty"
			case 4:
				tag = ",omitempty"
			case 5:
				if canString(ft) && !f.Anonymous {
					tag = tagNames[r.Intn(len(tagNames))] + ",string"
				}
			case 6:
				if o.Omitzero {
					tag = tagNames[r.Intn(len(tagNames))] + ",omitzero"
				} else {
					tag = "-"
				}
			case 7:
				tag = []string{"-", "-,", ",", "a,unknownopt", `bad"name`, "a,string,omitempty", ",string"}[r.Intn(7)]
				if strings.Contains(tag, "string") && (!canString(ft) || f.Anonymous) {
					tag = "-"
				}
			}
			if tag != "" {
				f.Tag = reflect.StructTag(`json:` + strconv.Quote(tag))
			}
		}
		fs = append(fs, f)
	}
	var t reflect.Type
	func() {
		defer func() {
			if e := recover(); e != nil {
				// reflect.StructOf refuses some combinations; fall back to a plain struct
				t = reflect.StructOf([]reflect.StructField{{Name: "A", Type: tString}, {Name: "B", Type: reflect.TypeOf(0)}})
			}
		}()
		t = reflect.StructOf(fs)
	}()
	return t
}

// Describe returns a stable descriptor for a type (its printed form includes
// field tags for StructOf types).
func Describe(t reflect.Type) string {
	s := t.String()
	if t.PkgPath() != "" {
		s = t.PkgPath() + "." + t.Name()
	}
	return s
}

// ---------------------------------------------------------------------------
// values

type ValOpts struct {
	MaxLen      int
	NaN         bool // allow NaN/Inf
	BadUTF8     bool // allow invalid UTF-8 in strings
	BadNumber   bool // allow invalid json.Number text
	IfaceTyped  bool // put typed Go values (ints, structs) into interface{} (encode only)
	Catalogue   []reflect.Type
	NilChance   int // 1/N chance of nil for pointers, maps, slices, interfaces
	NoEmptyKeys bool
	BigStrings  bool // occasionally produce multi-KiB strings dense in characters that need escaping
	BigSlices   bool // occasionally produce slices of 7..300 elements (growth steps of the decoder's slices and of the output buffer)
}

var sampleStrings = []string{"", "a", "hello", "héllo", "日本語", "😀", "<tag>&amp;", "line1\nline2", "tab\t", `quote"back\slash`, "  ", "\x00\x1f", "/path/to", "0", "null", "true", "-1.5e3", " ", "k<x>&"}

func (r *Rng) StringValue(o *ValOpts) string {
	if o.BigStrings && r.Chance(1, 50) {
		// long and dense in characters that expand when escaped: the output buffer of
		// the escaping passes has to grow several times
		unit := []string{"<&>", "<", " a", "\"\\", "\x01", "&amp;<b>"}[r.Intn(6)]
		// (not periodic: a routine that resumes at a wrong offset after growing its buffer
		// would otherwise reproduce the same bytes)
		n := r.Range(200, 4000)
		var sb strings.Builder
		for j := 0; j < n; j++ {
			sb.WriteString(unit)
			if j%5 == 4 {
				sb.WriteByte(byte('a' + (j/5)%26))
			}
			if j%131 == 130 {
				sb.WriteString(strconv.Itoa(j))
			}
		}
		return sb.String()
	}
	switch r.Intn(8) {
	case 0, 1, 2:
		return sampleStrings[r.Intn(len(sampleStrings))]
	case 3:
		if o.BadUTF8 {
			return []string{"\xff", "a\xc0\x80b", "\xed\xa0\x80", "ok\xf0\x9f\x98", "\x80\x80\x80"}[r.Intn(5)] + sampleStrings[r.Intn(len(sampleStrings))]
		}
		return strconv.Itoa(r.Intn(1000))
	case 4:
		n := r.SmallLen(o.MaxLen * 8)
		// (cutting at a byte offset may split a multi-byte character: repair unless invalid UTF-8 is wanted)
		s := strings.Repeat(sampleStrings[1+r.Intn(len(sampleStrings)-1)], n/4+1)[:n/4]
		if !o.BadUTF8 {
			s = strings.ToValidUTF8(s, "?")
		}
		return s
	}
	n := r.SmallLen(o.MaxLen)
	b := make([]byte, n)
	for i := range b {
		b[i] = byte(r.Range(0x20, 0x7e))
	}
	return string(b)
}

// Value fills a random value of type t.
func (r *Rng) Value(t reflect.Type, o *ValOpts, depth int) reflect.Value {
	v := reflect.New(t).Elem()
	r.fill(v, o, depth)
	return v
}

func (r *Rng) isNil(o *ValOpts, depth int) bool {
	n := o.NilChance
	if n <= 0 {
		n = 5
	}
	if depth > 6 {
		return true
	}
	return r.Chance(1, n)
}

func (r *Rng) fill(v reflect.Value, o *ValOpts, depth int) {
	t := v.Type()
	switch t {
	case tNumber:
		if o.BadNumber && r.Chance(1, 6) {
			v.SetString([]string{"", "abc", "1.", "0x10", "1e", "--1", "01", " 1", "1 ", "NaN", "+1", "1e+", "\"1\""}[r.Intn(13)])
		} else {
			v.SetString(r.SimpleNumber())
		}
		return
	case tRaw:
		if r.isNil(o, depth) {
			return
		}
		d := DocOpts{MaxDepth: 2, MaxWidth: 3, MaxStr: 6, WS: r.Bool()}
		v.SetBytes([]byte(strings.TrimSpace(r.Doc(&d))))
		return
	}
	switch t.Kind() {
	case reflect.Bool:
		v.SetBool(r.Bool())
	case reflect.Int, reflect.Int8, reflect.Int16, reflect.Int32, reflect.Int64:
		bits := t.Bits()
		var x int64
		switch r.Intn(6) {
		case 0:
			x = 0
		case 1:
			x = int64(r.Range(-100, 100))
		case 2:
			x = math.MaxInt64 >> (64 - uint(bits))
		case 3:
			x = math.MinInt64 >> (64 - uint(bits))
		default:
			x = int64(r.U64()) >> (64 - uint(bits)) >> uint(r.Intn(bits))
		}
		v.SetInt(x)
	case reflect.Uint, reflect.Uint8, reflect.Uint16, reflect.Uint32, reflect.Uint64, reflect.Uintptr:
		bits := t.Bits()
		var x uint64
		switch r.Intn(5) {
		case 0:
			x = 0
		case 1:
			x = uint64(r.Range(0, 200))
		case 2:
			x = math.MaxUint64 >> (64 - uint(bits))
		default:
			x = r.U64() >> (64 - uint(bits)) >> uint(r.Intn(bits))
		}
		v.SetUint(x)
	case reflect.Float32:
		f := r.InterestingFloat32()
		if o.NaN && r.Chance(1, 12) {
			f = []float32{float32(math.NaN()), float32(math.Inf(1)), float32(math.Inf(-1))}[r.Intn(3)]
		}
		v.SetFloat(float64(f))
	case reflect.Float64:
		f := r.InterestingFloat64()
		if o.NaN && r.Chance(1, 12) {
			f = []float64{math.NaN(), math.Inf(1), math.Inf(-1)}[r.Intn(3)]
		}
		v.SetFloat(f)
	case reflect.String:
		v.SetString(r.StringValue(o))
	case reflect.Slice:
		if r.isNil(o, depth) {
			return
		}
		n := r.SmallLen(o.MaxLen)
		if o.BigSlices && depth <= 2 && r.Chance(1, 14) {
			n = []int{7, 8, 9, 15, 16, 17, 31, 32, 33, 63, 64, 65, 130, 300}[r.Intn(14)]
			switch t.Elem().Kind() {
			case reflect.Struct, reflect.Map, reflect.Slice, reflect.Array, reflect.Interface:
				if n > 65 {
					n = 65 - n%3 // keep documents of composite elements moderate
				}
			}
		}
		if depth > 3 && n > 2 {
			n = 2
		}
		s := reflect.MakeSlice(t, n, n+r.Intn(3))
		for i := 0; i < n; i++ {
			r.fill(s.Index(i), o, depth+1)
		}
		v.Set(s)
	case reflect.Array:
		for i := 0; i < t.Len(); i++ {
			r.fill(v.Index(i), o, depth+1)
		}
	case reflect.Ptr:
		if r.isNil(o, depth) {
			return
		}
		p := reflect.New(t.Elem())
		r.fill(p.Elem(), o, depth+1)
		v.Set(p)
	case reflect.Map:
		if r.isNil(o, depth) {
			return
		}
		n := r.SmallLen(o.MaxLen)
		if r.Chance(1, 20) {
			n = []int{11, 12, 13, 40, 41, 60}[r.Intn(6)] // sort algorithm cut-overs
		}
		if depth > 3 && n > 2 {
			n = 2
		}
		if t.Key().Kind() == reflect.Ptr && n > 1 {
			n = 1 // distinct pointers with equal text would be duplicate keys
		}
		prefix := ""
		if r.Chance(1, 3) {
			prefix = "common_prefix_" // long common prefixes stress the radix sort
		}
		// integer keys that share a long decimal prefix (timestamps, sequential ids): every shared
		// digit costs the radix sort of the keys one level of its recursion budget
		cluster, base := false, uint64(0)
		switch t.Key().Kind() {
		case reflect.Int, reflect.Int64, reflect.Uint, reflect.Uint64, reflect.Uintptr, reflect.Int32, reflect.Uint32:
			if n >= 2 && r.Chance(1, 2) {
				cluster = true
				base = []uint64{1700000000000000000, 1234567890120000, 170000000000, 2100000000}[r.Intn(4)]
				if k := t.Key().Kind(); k == reflect.Int32 || k == reflect.Uint32 {
					base = 2100000000
				}
				base += uint64(r.Intn(1000)) * 100000
				if depth <= 3 && r.Chance(1, 3) {
					n = []int{12, 13, 16, 20, 33, 100}[r.Intn(6)]
				}
			}
		}
		m := reflect.MakeMapWithSize(t, n)
		for i := 0; i < n; i++ {
			k := reflect.New(t.Key()).Elem()
			r.fill(k, o, depth+1)
			if cluster {
				x := base + uint64(i)*uint64(1+r.Intn(9))
				if k.CanInt() {
					k.SetInt(int64(x))
					if r.Chance(1, 4) {
						k.SetInt(-int64(x))
					}
				} else {
					k.SetUint(x)
				}
			}
			if k.Kind() == reflect.String && k.Type() != tNumber {
				ks := prefix + k.String()
				if n > 1 {
					// distinct invalid keys would encode to the same U+FFFD text: duplicate
					// keys, whose relative order no encoder defines
					ks = strings.ToValidUTF8(ks, "?")
				}
				k.SetString(ks)
				if o.NoEmptyKeys && k.String() == "" {
					k.SetString("k")
				}
			}
			if k.Kind() == reflect.Ptr && k.IsNil() {
				continue
			}
			e := reflect.New(t.Elem()).Elem()
			r.fill(e, o, depth+1)
			m.SetMapIndex(k, e)
		}
		v.Set(m)
	case reflect.Interface:
		if r.isNil(o, depth) {
			return
		}
		if t.NumMethod() != 0 {
			return // non-empty interfaces are filled by the workload, if at all
		}
		v.Set(r.ifaceValue(o, depth))
	case reflect.Struct:
		for i := 0; i < t.NumField(); i++ {
			f := t.Field(i)
			if f.PkgPath != "" && !f.Anonymous {
				continue
			}
			if !v.Field(i).CanSet() {
				continue
			}
			r.fill(v.Field(i), o, depth+1)
		}
	}
}

// ifaceValue produces what a JSON decoder would produce (so that round trips
// can be compared), or typed values when IfaceTyped is set.
func (r *Rng) ifaceValue(o *ValOpts, depth int) reflect.Value {
	k := r.Intn(8)
	if depth > 4 && k >= 5 {
		k = r.Intn(5)
	}
	switch k {
	case 0:
		return reflect.ValueOf(r.Bool())
	case 1, 2:
		if o.IfaceTyped && r.Chance(1, 2) {
			switch r.Intn(5) {
			case 0:
				return reflect.ValueOf(int(r.Range(-1000, 1000)))
			case 1:
				return reflect.ValueOf(uint8(r.Intn(256)))
			case 2:
				return reflect.ValueOf(json.Number(r.SimpleNumber()))
			case 3:
				return reflect.ValueOf(r.InterestingFloat32())
			default:
				if len(o.Catalogue) > 0 {
					t := o.Catalogue[r.Intn(len(o.Catalogue))]
					p := reflect.New(t)
					r.fill(p.Elem(), o, depth+2)
					if r.Bool() {
						return p
					}
					return p.Elem()
				}
			}
		}
		return reflect.ValueOf(r.InterestingFloat64())
	case 3, 4:
		return reflect.ValueOf(r.StringValue(o))
	case 5, 6:
		n := r.SmallLen(4)
		s := make([]interface{}, n)
		for i := range s {
			if !r.isNil(o, depth+1) {
				s[i] = r.ifaceValue(o, depth+1).Interface()
			}
		}
		return reflect.ValueOf(s)
	}
	n := r.SmallLen(4)
	m := make(map[string]interface{}, n)
	for i := 0; i < n; i++ {
		var e interface{}
		if !r.isNil(o, depth+1) {
			e = r.ifaceValue(o, depth+1).Interface()
		}
		m[r.StringValue(o)] = e
	}
	return reflect.ValueOf(m)
}

// ---------------------------------------------------------------------------
// canonical dump (digest / deep compare), NaN safe, distinguishes nil/empty

// Dump renders a value canonically: equal dumps <=> deeply equal values in the
// sense the properties need (float bits, nil vs empty, json.Number text).
func Dump(v reflect.Value) string {
	var sb strings.Builder
	dump(&sb, v, 0, map[uintptr]bool{})
	return sb.String()
}

func dump(sb *strings.Builder, v reflect.Value, depth int, seen map[uintptr]bool) {
	if !v.IsValid() {
		sb.WriteString("<invalid>")
		return
	}
	if depth > 60 {
		sb.WriteString("<deep>")
		return
	}
	t := v.Type()
	switch v.Kind() {
	case reflect.Bool:
		fmt.Fprintf(sb, "%v", v.Bool())
	case reflect.Int, reflect.Int8, reflect.Int16, reflect.Int32, reflect.Int64:
		fmt.Fprintf(sb, "%s(%d)", t.Kind(), v.Int())
	case reflect.Uint, reflect.Uint8, reflect.Uint16, reflect.Uint32, reflect.Uint64, reflect.Uintptr:
		fmt.Fprintf(sb, "%s(%d)", t.Kind(), v.Uint())
	case reflect.Float32:
		fmt.Fprintf(sb, "f32(%#x)", math.Float32bits(float32(v.Float())))
	case reflect.Float64:
		f := v.Float()
		if f != f {
			sb.WriteString("f64(NaN)")
		} else {
			fmt.Fprintf(sb, "f64(%#x)", math.Float64bits(f))
		}
	case reflect.String:
		sb.WriteString(strconv.QuoteToASCII(v.String()))
		if !utf8.ValidString(v.String()) {
			sb.WriteString("!utf8")
		}
	case reflect.Slice:
		if v.IsNil() {
			sb.WriteString("nil[]")
			return
		}
		if t.Elem().Kind() == reflect.Uint8 {
			fmt.Fprintf(sb, "bytes(%x)", v.Bytes())
			return
		}
		sb.WriteString("[")
		for i := 0; i < v.Len(); i++ {
			if i > 0 {
				sb.WriteString(",")
			}
			dump(sb, v.Index(i), depth+1, seen)
		}
		sb.WriteString("]")
	case reflect.Array:
		sb.WriteString("arr[")
		for i := 0; i < v.Len(); i++ {
			if i > 0 {
				sb.WriteString(",")
			}
			dump(sb, v.Index(i), depth+1, seen)
		}
		sb.WriteString("]")
	case reflect.Ptr:
		if v.IsNil() {
			sb.WriteString("nil*")
			return
		}
		sb.WriteString("&")
		dump(sb, v.Elem(), depth+1, seen)
	case reflect.Interface:
		if v.IsNil() {
			sb.WriteString("nil-iface")
			return
		}
		fmt.Fprintf(sb, "iface<%s>", v.Elem().Type())
		dump(sb, v.Elem(), depth+1, seen)
	case reflect.Map:
		if v.IsNil() {
			sb.WriteString("nil-map")
			return
		}
		keys := v.MapKeys()
		type kv struct{ k, v string }
		items := make([]kv, 0, len(keys))
		for _, k := range keys {
			var kb, vb strings.Builder
			dump(&kb, k, depth+1, seen)
			dump(&vb, v.MapIndex(k), depth+1, seen)
			items = append(items, kv{kb.String(), vb.String()})
		}
		// sort by key dump
		for i := 1; i < len(items); i++ {
			for j := i; j > 0 && items[j-1].k > items[j].k; j-- {
				items[j-1], items[j] = items[j], items[j-1]
			}
		}
		sb.WriteString("map{")
		for i, it := range items {
			if i > 0 {
				sb.WriteString(",")
			}
			sb.WriteString(it.k + ":" + it.v)
		}
		sb.WriteString("}")
	case reflect.Struct:
		sb.WriteString("{")
		for i := 0; i < v.NumField(); i++ {
			if i > 0 {
				sb.WriteString(",")
			}
			sb.WriteString(t.Field(i).Name + ":")
			dump(sb, v.Field(i), depth+1, seen)
		}
		sb.WriteString("}")
	case reflect.Chan, reflect.Func, reflect.UnsafePointer:
		if v.IsNil() {
			sb.WriteString("nil-" + v.Kind().String())
		} else {
			sb.WriteString(v.Kind().String())
		}
	default:
		fmt.Fprintf(sb, "<%s>", v.Kind())
	}
}
