package main

// Plan describes one property's check.
type Plan struct {
	Level            string
	Rule             string
	Assumptions      []string
	MinEvals         int
	MinEvalsThorough int
	HangIsViolation  bool
	Runs             func(tier string) []*Run
	Post             func(v *Verdict, runs []*Run, results map[string][]*BatchResult)
}

var plans = map[string]*Plan{}

func n(quick, thorough int) int {
	if tier == "thorough" {
		return thorough
	}
	return quick
}

func simpleRuns(name string, qb, tb int) func(string) []*Run {
	return func(string) []*Run {
		return []*Run{{Name: name, Flavor: "plain", NBatch: n(qb, tb), TimeoutS: n(600, 3000)}}
	}
}

var stdAssumptions = []string{
	"encoding/json, strconv, unicode/utf8 and math/big of the toolchain that built the worker are correct reference oracles",
	"the harness' own reference routines (harness/ref) are correct; they are cross-checked against the standard library on every input they see",
	"only executions actually produced are decided: held on these cases, not for all inputs",
}

func init() {
	plans["C20"] = &Plan{
		Level: "exploration",
		Rule: "cases = (a) exhaustive sweep length 0..L x insertion position x 32 special byte groups over 3 fillers, alignment and spare capacity rotating (L=72 quick, 200 thorough); (b) seeded random raw byte strings and escape bodies. " +
			"Each case runs Quote, Marshal(string) under 4 configs, ',string' double quoting, unquote.String, Unmarshal(string) under 2 configs, HTMLEscape (2 destinations), utf8.Validate/ValidateString/CorrectWith (3 replacements) against reference definitions. distinct = FNV-1a of the byte string; non-trivial = non-empty",
		Assumptions: stdAssumptions, MinEvals: 100000, MinEvalsThorough: 1000000,
		Runs: func(string) []*Run {
			return []*Run{
				{Name: "avx2", Flavor: "plain", NBatch: 16, TimeoutS: n(600, 3000)},
				{Name: "sse", Flavor: "plain", NBatch: n(4, 16), Env: []string{"SONIC_MODE=noavx2"}, TimeoutS: n(600, 3000)},
			}
		},
	}
	plans["C01"] = &Plan{
		Level: "exploration",
		Rule: "case = (destination type, configuration, initial destination, document). Types: random reflect-built types (scalars of every width, json.Number/RawMessage/[]byte, arrays, slices, maps with every supported key kind, pointers, interface{}, structs with random tags/embedding/unexported fields, >50 fields) mixed with a hand-written catalogue of ~40 named types (Unmarshaler/TextUnmarshaler on value and pointer receivers, recursive types, embedding conflicts, tag edge cases, case-folding names); every distinct type is a freshly compiled decoder program. " +
			"Documents: encoding/json's own output for a random value of the type, re-emitted with labelled mutations (unknown/duplicate/dropped/null fields, wrong-kind values, extra/missing elements, case variants and \\u-escaped keys, number re-spellings and overflows, white space; string-content defects only at stored positions under ConfigStd) — expectation: exact agreement with encoding/json on error-or-not and on the deep value; plus arbitrary byte edits and random documents — expectation: the two bounds of the leniency clause. A third of the cases decode into a pre-populated destination. distinct = hash(type descriptor, config, document); non-trivial = document length >= 2",
		Assumptions: stdAssumptions, MinEvals: 20000, MinEvalsThorough: 1000000,
		Runs: func(string) []*Run {
			return []*Run{
				{Name: "jit", Flavor: "plain", NBatch: 16, TimeoutS: n(900, 3000)},
				{Name: "jit-sse", Flavor: "plain", NBatch: n(2, 8), Env: []string{"SONIC_MODE=noavx2"}, TimeoutS: n(900, 3000)},
			}
		},
	}
	plans["C02"] = &Plan{
		Level: "exploration",
		Rule: "documents = (a) block sweep: 6 document shapes x string/white-space length 0..L x position x 11 special byte groups (quote, backslash, escaped quote, control, ...) so that every critical byte meets every offset of a 16/32/64-byte SIMD block (L=70 quick, 140 thorough); (b) unterminated strings of every length 0..2L+70 x 5 fillers x 6 prefixes; (c) seeded structure-random valid documents, 1- and 2-edit mutations, every kind of truncation, token soups, number spellings; (d) nesting 4094..10001. " +
			"Each document is given to 25+ consuming entry points (Valid x4 configs, Unmarshal into interface{}/struct/slice/map x3 configs, RawMessage, Unmarshaler capture (captured bytes re-checked), *ast.Node, Get x3 with and without path, NewRaw+LoadAll, Preorder, decoder.Skip span) at a rotating alignment and judged against the two bounds json.Valid => accept, accept => StructOK. distinct = hash of document bytes; non-trivial = length >= 2",
		Assumptions: stdAssumptions, MinEvals: 50000, MinEvalsThorough: 1000000,
		Runs: func(string) []*Run {
			return []*Run{
				{Name: "avx2", Flavor: "plain", NBatch: 16, TimeoutS: n(600, 3000)},
				{Name: "sse", Flavor: "plain", NBatch: n(6, 16), Env: []string{"SONIC_MODE=noavx2"}, TimeoutS: n(600, 3000)},
				{Name: "optdec", Flavor: "plain", NBatch: n(4, 16), Env: []string{"SONIC_USE_OPTDEC=1"}, TimeoutS: n(600, 3000)},
			}
		},
	}
	plans["C03"] = &Plan{
		Level: "exploration",
		Rule: "case = (type, value, how it is passed: value / pointer / element of []interface{} / value of map[string]interface{}). Types as in C01 (random reflect-built + catalogue incl. Marshaler/TextMarshaler on value and pointer receivers, erroring and invalid-output marshalers, pointer-keyed maps); values: boundary numbers, NaN/Inf, invalid UTF-8, HTML characters, invalid json.Number text, nil vs empty containers, maps with 11/12/13/40/41/60 keys and long common prefixes, typed values inside interface{}. Oracle: encoding/json.Marshal of the same argument; outputs compared as token streams (punctuation, order, number literals byte-exact, strings by denoted value). distinct = hash(type descriptor, passing mode, canonical value dump); non-trivial = output has >= 2 bytes or an error",
		Assumptions: stdAssumptions, MinEvals: 20000, MinEvalsThorough: 1000000,
		Runs: func(string) []*Run {
			return []*Run{
				{Name: "jit", Flavor: "plain", NBatch: 16, TimeoutS: n(900, 3000)},
				{Name: "jit-sse", Flavor: "plain", NBatch: n(2, 8), Env: []string{"SONIC_MODE=noavx2"}, TimeoutS: n(900, 3000)},
				{Name: "vm", Flavor: "plain", NBatch: n(2, 8), Env: []string{"SONIC_ENCODER_USE_VM=1"}, TimeoutS: n(900, 3000)},
			}
		},
	}
	plans["C19"] = &Plan{
		Level: "exploration",
		Rule: "decode: seeded number literals (boundary integers of every width +-2, 15-22 and 30-1100 digit mantissas, exponents around +-308/324/400, long zero runs, exact float64/float32 midpoints built with math/big and perturbed in a far digit, subnormal/min-normal/max boundaries, zeros) through 30+ routes per literal (float64/float32/every integer width/json.Number/interface{} under default, UseNumber, UseInt64/',string' fields/integer map keys/ast accessors/Interface/Preorder callbacks) against strconv and encoding/json; " +
			"format: seeded interesting float64/float32/int64/uint64 through scalar, struct, ',string', map-key and interface{} routes byte-for-byte against encoding/json and parsed back; f32all: float32 bit patterns in blocks of 4096 (every pattern in thorough => exhaustive for float32 formatting and shortest-text decoding; stride 1021 in quick); f64fmt: blocks of random+structured float64. distinct = hash of literal / value bits / first pattern of a block; all are non-trivial",
		Assumptions: stdAssumptions, MinEvals: 50000, MinEvalsThorough: 1000000,
		Runs: func(string) []*Run {
			return []*Run{
				{Name: "main", Flavor: "plain", NBatch: 16, TimeoutS: n(600, 3000)},
				{Name: "main-sse", Flavor: "plain", NBatch: n(2, 8), Env: []string{"SONIC_MODE=noavx2"}, TimeoutS: n(600, 3000)},
				{Name: "main-optdec", Flavor: "plain", NBatch: n(2, 8), Env: []string{"SONIC_USE_OPTDEC=1"}, TimeoutS: n(600, 3000)},
				{Name: "main-vm", Flavor: "plain", NBatch: n(2, 8), Env: []string{"SONIC_ENCODER_USE_VM=1"}, TimeoutS: n(600, 3000)},
				{Name: "f32all", Flavor: "plain", Mode: "f32all", NBatch: n(16, 64), TimeoutS: n(600, 3000)},
				{Name: "f32all-sse", Flavor: "plain", Mode: "f32all", NBatch: n(4, 64), Env: []string{"SONIC_MODE=noavx2"}, TimeoutS: n(600, 3000)},
				{Name: "f64fmt", Flavor: "plain", Mode: "f64fmt", NBatch: n(8, 32), TimeoutS: n(600, 3000)},
			}
		},
	}
}
