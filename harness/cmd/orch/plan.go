package main

import (
	"fmt"
	"regexp"
	"strconv"
	"strings"
)

var runningRe = regexp.MustCompile(`RUNNING: case \d+ kind=\S+ placement=(.*?) input=("(?:[^"\\]|\\.)*")`)

// the last token of the input is the number 0 / -0 (nothing follows it)
var lastTokenZero = regexp.MustCompile(`(^|[^0-9.eE+\-])-?0$`)

// Plan describes one property's check.
type Plan struct {
	Level            string
	Rule             string
	Assumptions      []string
	MinEvals         int
	MinEvalsThorough int
	HangIsViolation  bool
	Runs             func(tier string) []*Run
	Post             func(v *Verdict, runs []*Run, results map[string][]*BatchResult)
}

var plans = map[string]*Plan{}

func n(quick, thorough int) int {
	if tier == "thorough" {
		return thorough
	}
	return quick
}

func simpleRuns(name string, qb, tb int) func(string) []*Run {
	return func(string) []*Run {
		return []*Run{{Name: name, Flavor: "plain", NBatch: n(qb, tb), TimeoutS: n(600, 3000)}}
	}
}

// crossDiff compares the per-case digests of run `base` with those of every
// run in `others` (same seed, same batches => same cases). A mismatch flagged
// by either side with an open known finding of this property is counted as
// that finding; anything else is a violation replayable in both processes.
func crossDiff(base string, others ...string) func(v *Verdict, runs []*Run, results map[string][]*BatchResult) {
	return func(v *Verdict, runs []*Run, results map[string][]*BatchResult) {
		open := map[string]bool{}
		for _, f := range findings.Findings {
			if f.Status == "open" && f.appliesTo(prop) {
				open[f.ID] = true
			}
		}
		compared, differed := int64(0), int64(0)
		cfgSeen := map[string]string{}
		for name, brs := range results {
			for _, br := range brs {
				if br != nil && br.Config != nil {
					cfgSeen[name] = br.Config["native"] + "/optdec=" + br.Config["optdec"] + "/fastmap=" + br.Config["fastmap"] + "/vm=" + br.Config["vm"]
					// overlays of the runtime-cooperation check, as the worker saw them
					for _, k := range []string{"GOGC", "GODEBUG", "SONIC_SYNC_GC", "VERIF_C10", "GOMAXPROCS"} {
						if x := br.Config[k]; x != "" {
							cfgSeen[name] += "/" + k + "=" + x
						}
					}
				}
			}
		}
		for _, o := range others {
			if cfgSeen[o] == cfgSeen[base] {
				v.Inconcl = append(v.Inconcl, fmt.Sprintf("runs %s and %s observed the same configuration %q: nothing was compared", base, o, cfgSeen[base]))
				continue
			}
			for b, bb := range results[base] {
				if b >= len(results[o]) || bb == nil || results[o][b] == nil {
					continue
				}
				ob := results[o][b]
				for i, d := range bb.Digests {
					od, ok := ob.Digests[i]
					if !ok {
						continue // the other process died before this case (reported as a crash)
					}
					compared++
					df, of := strings.SplitN(d, " ", 2), strings.SplitN(od, " ", 2)
					if df[0] == of[0] {
						continue
					}
					differed++
					known := ""
					for _, fl := range append(flagList(df), flagList(of)...) {
						if open[fl] {
							known = fl
						}
					}
					if known != "" {
						v.KnownSeen[known]++
						continue
					}
					v.Violations = append(v.Violations, Violation{Run: base, Also: o, Batch: b, Case: i, API: "cross-process",
						Msg:    fmt.Sprintf("result differs between %s (%s) and %s (%s)", base, cfgSeen[base], o, cfgSeen[o]),
						Detail: map[string]string{base: d, o: od}})
					v.VCount++
				}
			}
		}
		if v.Extra == nil {
			v.Extra = map[string]interface{}{}
		}
		v.Extra["cross_process_cases_compared"] = compared
		v.Extra["cross_process_digests_differing"] = differed
		v.Extra["configurations_observed"] = cfgSeen
		if compared == 0 {
			v.Inconcl = append(v.Inconcl, "no digests were compared")
		}
	}
}

func flagList(parts []string) []string {
	if len(parts) < 2 || parts[1] == "" {
		return nil
	}
	return strings.Split(parts[1], ",")
}

var stdAssumptions = []string{
	"encoding/json, strconv, unicode/utf8 and math/big of the toolchain that built the worker are correct reference oracles",
	"the harness' own reference routines (harness/ref) are correct; they are cross-checked against the standard library on every input they see",
	"only executions actually produced are decided: held on these cases, not for all inputs",
}

func init() {
	plans["C20"] = &Plan{
		Level: "exploration",
		Rule: "cases = (a) exhaustive sweep length 0..L x insertion position x 32 special byte groups over 3 fillers, alignment and spare capacity rotating (L=72 quick, 200 thorough); (b) seeded random raw byte strings and escape bodies. " +
			"Each case runs Quote, Marshal(string) under 4 configs, ',string' double quoting, unquote.String, Unmarshal(string) under 2 configs, HTMLEscape (2 destinations), utf8.Validate/ValidateString/CorrectWith (3 replacements) against reference definitions. distinct = FNV-1a of the byte string; non-trivial = non-empty",
		Assumptions: stdAssumptions, MinEvals: 100000, MinEvalsThorough: 1000000,
		Runs: func(string) []*Run {
			return []*Run{
				{Name: "avx2", Flavor: "plain", NBatch: 16, TimeoutS: n(600, 3000)},
				{Name: "sse", Flavor: "plain", NBatch: n(4, 16), Env: []string{"SONIC_MODE=noavx2"}, TimeoutS: n(600, 3000)},
			}
		},
	}
	plans["C01"] = &Plan{
		Level: "exploration",
		Rule: "case = (destination type, configuration, initial destination, document). Types: random reflect-built types (scalars of every width, json.Number/RawMessage/[]byte, arrays, slices, maps with every supported key kind, pointers, interface{}, structs with random tags/embedding/unexported fields, >50 fields) mixed with a hand-written catalogue of ~40 named types (Unmarshaler/TextUnmarshaler on value and pointer receivers, recursive types, embedding conflicts, tag edge cases, case-folding names); every distinct type is a freshly compiled decoder program. " +
			"Documents: encoding/json's own output for a random value of the type, re-emitted with labelled mutations (unknown/duplicate/dropped/null fields, wrong-kind values, extra/missing elements, case variants and \\u-escaped keys, number re-spellings and overflows, white space; string-content defects only at stored positions under ConfigStd) — expectation: exact agreement with encoding/json on error-or-not and on the deep value; plus arbitrary byte edits and random documents — expectation: the two bounds of the leniency clause. A third of the cases decode into a pre-populated destination. distinct = hash(type descriptor, config, document); non-trivial = document length >= 2",
		Assumptions: stdAssumptions, MinEvals: 20000, MinEvalsThorough: 1000000,
		Runs: func(string) []*Run {
			return []*Run{
				{Name: "jit", Flavor: "plain", NBatch: 16, TimeoutS: n(900, 3000)},
				{Name: "jit-sse", Flavor: "plain", NBatch: n(2, 8), Env: []string{"SONIC_MODE=noavx2"}, TimeoutS: n(900, 3000)},
			}
		},
	}
	plans["C02"] = &Plan{
		Level: "exploration",
		Rule: "documents = (a) block sweep: 6 document shapes x string/white-space length 0..L x position x 11 special byte groups (quote, backslash, escaped quote, control, ...) so that every critical byte meets every offset of a 16/32/64-byte SIMD block (L=70 quick, 140 thorough); (b) unterminated strings of every length 0..2L+70 x 5 fillers x 6 prefixes; (c) seeded structure-random valid documents, 1- and 2-edit mutations, every kind of truncation, token soups, number spellings; (d) nesting 4094..10001. " +
			"Each document is given to 25+ consuming entry points (Valid x4 configs, Unmarshal into interface{}/struct/slice/map x3 configs, RawMessage, Unmarshaler capture (captured bytes re-checked), *ast.Node, Get x3 with and without path, NewRaw+LoadAll, Preorder, decoder.Skip span) at a rotating alignment and judged against the two bounds json.Valid => accept, accept => StructOK. distinct = hash of document bytes; non-trivial = length >= 2",
		Assumptions: stdAssumptions, MinEvals: 50000, MinEvalsThorough: 1000000,
		Runs: func(string) []*Run {
			return []*Run{
				{Name: "avx2", Flavor: "plain", NBatch: 16, TimeoutS: n(600, 3000)},
				{Name: "sse", Flavor: "plain", NBatch: n(6, 16), Env: []string{"SONIC_MODE=noavx2"}, TimeoutS: n(600, 3000)},
				{Name: "optdec", Flavor: "plain", NBatch: n(4, 16), Env: []string{"SONIC_USE_OPTDEC=1"}, TimeoutS: n(600, 3000)},
			}
		},
	}
	plans["C03"] = &Plan{
		Level:       "exploration",
		Rule:        "case = (type, value, how it is passed: value / pointer / element of []interface{} / value of map[string]interface{}). Types as in C01 (random reflect-built + catalogue incl. Marshaler/TextMarshaler on value and pointer receivers, erroring and invalid-output marshalers, pointer-keyed maps); values: boundary numbers, NaN/Inf, invalid UTF-8, HTML characters, invalid json.Number text, nil vs empty containers, maps with 11/12/13/40/41/60 keys and long common prefixes, typed values inside interface{}. Oracle: encoding/json.Marshal of the same argument; outputs compared as token streams (punctuation, order, number literals byte-exact, strings by denoted value). distinct = hash(type descriptor, passing mode, canonical value dump); non-trivial = output has >= 2 bytes or an error",
		Assumptions: stdAssumptions, MinEvals: 20000, MinEvalsThorough: 1000000,
		Runs: func(string) []*Run {
			return []*Run{
				{Name: "jit", Flavor: "plain", NBatch: 16, TimeoutS: n(900, 3000)},
				{Name: "jit-sse", Flavor: "plain", NBatch: n(2, 8), Env: []string{"SONIC_MODE=noavx2"}, TimeoutS: n(900, 3000)},
				{Name: "vm", Flavor: "plain", NBatch: n(2, 8), Env: []string{"SONIC_ENCODER_USE_VM=1"}, TimeoutS: n(900, 3000)},
			}
		},
	}
	plans["C04"] = &Plan{
		Level: "exploration",
		Rule: "(a) all 512 encoder option sets x 9 kinds of values without a JSON representation (pointer/map/slice/interface cycles, chan, func, complex, invalid json.Number): an error is required; (b) option sets visited round-robin (every set in every 32 consecutive cases of the 16 batches) against seeded values: pure (method-free) random types with valid UTF-8 and finite floats -> output must be exactly one well-formed value without surrounding bytes, valid UTF-8 under ValidateString, free of raw <>& under EscapeHTML, and must decode back (with encoding/json and with sonic) to what encoding/json's own round trip gives (float bits, ints, strings, containers; nil==empty); NaN/Inf values -> error unless EncodeNullForInfOrNan; invalid UTF-8 values and catalogue types with marshalers -> well-formedness (not judged under NoQuoteTextMarshaler/NoValidateJSONMarshaler, which are documented ways to emit non-JSON). distinct = hash(type, option set, value dump)",
		Assumptions: stdAssumptions, MinEvals: 20000, MinEvalsThorough: 1000000,
		Runs: func(string) []*Run {
			return []*Run{
				{Name: "jit", Flavor: "plain", NBatch: 16, TimeoutS: n(900, 3000)},
				{Name: "vm", Flavor: "plain", NBatch: n(4, 16), Env: []string{"SONIC_ENCODER_USE_VM=1"}, TimeoutS: n(900, 3000)},
			}
		},
	}
	// crash signatures of open findings in native code: decided on the input the worker recorded
	// (<log>.cur) before it died and on the innermost native frame.
	runningInput := func(v Violation) (string, string, bool) {
		m := runningRe.FindStringSubmatch(fmt.Sprint(v.Detail))
		if m == nil {
			return "", "", false
		}
		in, err := strconv.Unquote(m[2])
		return m[1], in, err == nil
	}
	crashWitness["B42"], crashWitness["B43"] = true, true
	crashSigs["B42"] = func(v Violation) bool {
		pl, in, ok := runningInput(v)
		return ok && strings.Contains(v.Msg, "native _value") && strings.Contains(pl, "guard") && lastTokenZero.MatchString(in)
	}
	crashSigs["B43"] = func(v Violation) bool {
		pl, in, ok := runningInput(v)
		return ok && strings.Contains(v.Msg, "native _") && strings.Contains(pl, "guard") && len(in) <= 3 && strings.ContainsAny(in, "tnf")
	}
	plans["C05"] = &Plan{
		Level: "exploration",
		Rule: "every input (block sweeps: 6 document shapes and plain strings x length 0..L x position x 16 special byte groups; every prefix of seeded documents; seeded random/mutated documents, raw byte strings up to 9000 bytes, escape bodies, number literals) is run through ~45 byte-consuming entry points (Valid/ValidString, UnmarshalString into interface{} under 3 configs, struct, RawMessage, map, []float64, []int64, string, []byte, decoder.Decoder with DisallowUnknownFields, Skip, Get/GetFromString with 7 paths, NewRaw+LoadAll+MarshalJSON, Searcher, Node walk, Preorder, Marshal of RawMessage/Number; Quote, unquote, HTMLEscape, utf8 Validate/ValidateString/CorrectWith, Marshal of string/map key/pointer/`,string` field/[]byte under 2 configs, ast.NewString) WITHOUT copying: once on a heap copy and then on the same bytes (b) ending exactly at a PROT_NONE page, (c) starting exactly after a PROT_NONE page, (d) at offsets 0, 63 and two seeded offsets from a 64-byte boundary followed by a continuation that would change the result if read (digits, quote, escape, brackets, exponent, UTF-8 continuation bytes, NULs, base64 padding), (e) 1-40 bytes before a PROT_NONE page with such a fill. Per-API outcome (error class, position, hash of the error text, value digest) must be identical in all placements; a read outside the input in (b)/(c)/(e) is a fault that kills the worker and is reported with the running case. Runs: AVX2 table, SSE table, optdec. distinct = hash(kind, input)",
		Assumptions: []string{"mmap/mprotect guard pages of the Linux kernel fault on any access; the Go runtime turns the fault into a fatal error that the orchestrator sees as a worker crash", "only executions actually produced are decided: held on these inputs and placements, not for all inputs"},
		MinEvals:    8000, MinEvalsThorough: 400000,
		Runs: func(string) []*Run {
			return []*Run{
				{Name: "avx2", Flavor: "plain", NBatch: 16, TimeoutS: n(900, 6000)},
				{Name: "sse", Flavor: "plain", NBatch: n(8, 16), Env: []string{"SONIC_MODE=noavx2"}, TimeoutS: n(900, 6000)},
				{Name: "optdec", Flavor: "plain", NBatch: n(4, 16), Env: []string{"SONIC_USE_OPTDEC=1"}, TimeoutS: n(900, 6000)},
			}
		},
	}
	plans["C06"] = &Plan{
		Level: "exploration",
		Rule: "three monitors over seeded histories. (1) ledger: in concurrent rounds 4 goroutines run 40-80 operations each (9 encoding entry points on values whose output sizes sit around 0, the 4 KiB initial buffer, 8/16 KiB and option.LimitBufferSize -4096..+4096 and x2; Unmarshal; ast MarshalJSON/Raw/String; Quote/HTMLEscape); every returned slice/string is recorded with a checksum at return time and re-read later (at random points of later rounds and at the end of every round, up to 48 MiB held per goroutine); a changed checksum = a later call wrote into returned memory; the race-detector run reports such a write at the moment it happens; the same value must also encode to the same bytes every time. (2) caller buffers: EncodeInto with a destination whose spare capacity (every value 0..72, around len/2, len-64, len-32, len, 2*len, 4096, +-3) ends exactly at a PROT_NONE page, dirty prior contents and an optional prefix: result must be prefix+Encode(v), the prefix untouched, and any write beyond the capacity faults; same for HTMLEscape and utf8.CorrectWith. (3) inputs: after Unmarshal([]byte) (7 configurations x 2 destination shapes), UnmarshalFromString with CopyString over caller-owned memory, sonic.Get([]byte), GetCopyFromString and GetWithOptions(CopyReturn) (8 paths) the caller overwrites its buffer; dumps of the decoded values / Raw and Interface of the located nodes must not change. Runs: default pools, LimitBufferSize lowered to 64 KiB, VM encoder, SSE table, and a race-detector build",
		Assumptions: []string{"a checksum (FNV-1a 64) change is taken as a change of the bytes", "guard pages fault on any access; the race detector reports unsynchronised conflicting accesses it observes", "only executions actually produced are decided"},
		MinEvals:    1500, MinEvalsThorough: 60000,
		Runs: func(string) []*Run {
			return []*Run{
				{Name: "default", Flavor: "plain", NBatch: n(4, 16), TimeoutS: n(900, 6000)},
				{Name: "smallpool", Flavor: "plain", Mode: "smallpool", NBatch: n(6, 16), TimeoutS: n(900, 6000)},
				{Name: "vm", Flavor: "plain", Mode: "smallpool", NBatch: n(2, 8), Env: []string{"SONIC_ENCODER_USE_VM=1"}, TimeoutS: n(900, 6000)},
				{Name: "sse", Flavor: "plain", Mode: "smallpool", NBatch: n(2, 8), Env: []string{"SONIC_MODE=noavx2"}, TimeoutS: n(900, 6000)},
				{Name: "optdec", Flavor: "plain", Mode: "smallpool", NBatch: n(2, 8), Env: []string{"SONIC_USE_OPTDEC=1"}, TimeoutS: n(900, 6000)},
				{Name: "race", Flavor: "race", Mode: "race", NBatch: n(6, 12), TimeoutS: n(1200, 6000)},
			}
		},
	}
	plans["C07"] = &Plan{
		Level: "exploration",
		Rule: "one long sequence of hostile inputs per worker process (random bytes, token soup, mutated/truncated/valid documents, block documents, raw and escaped string bodies, documents nested 2047..8192 and 65535/65536 levels around every documented limit with 5 push shapes x 7 cores x complete/partial/no closers x a sibling after the deep member, nesting of 5000..300000 (thorough: 2,000,000) levels, strings/numbers/objects/white space of 1e3..1e6 bytes) each through ~45 entry points in the same process (Valid, Unmarshal into 15 destination types under 4 configurations, Skip, decoder.Decoder twice, StreamDecoder loops with 3 read sizes, Get with 8 paths + Raw/Interface/MarshalJSON, NewRaw+LoadAll, Searcher+Load+ForEach+SortKeys, Parser.Parse, Preorder, string routines, Marshal of RawMessage/Number/strings), plus every 5th case a hostile Go value (pointer/map/slice/interface cycles, values nested up to 100000 (thorough 1e6) levels, long linked lists, Marshalers returning garbage, chan/func, random catalogue values) through 7 encoding entry points. Oracles: recover() around every call (panic = violation); worker death (fault, stack exhaustion) reported with the input recorded just before; watchdog (hang = violation); a loop of successful stream Decodes must end within len+3 calls and a second Decode must advance; cycles must be reported as errors; for every error: Error()/Description() return, are <= 4096 bytes whatever the input size, Pos in [0,len(input)]",
		Assumptions: []string{"the default maximum goroutine stack (1 GB) applies; a fatal runtime error is observed as the death of the worker", "only executions actually produced are decided"},
		MinEvals:    6000, MinEvalsThorough: 400000,
		HangIsViolation: true,
		Runs: func(string) []*Run {
			return []*Run{
				{Name: "jit", Flavor: "plain", NBatch: n(8, 16), TimeoutS: n(900, 6000)},
				{Name: "optdec-vm", Flavor: "plain", NBatch: n(4, 16), Env: []string{"SONIC_USE_OPTDEC=1", "SONIC_ENCODER_USE_VM=1"}, TimeoutS: n(900, 6000)},
				{Name: "sse", Flavor: "plain", NBatch: n(2, 8), Env: []string{"SONIC_MODE=noavx2"}, TimeoutS: n(900, 6000)},
			}
		},
	}
	plans["C08"] = &Plan{
		Level: "exploration",
		Rule: "two monitors, each worker a fresh process (so first-use compilation races happen once per batch). (1) histories of concurrent Get/Compute calls on a private instance of the RCU program cache (real code, through verifbridge.PCache): 2-12 goroutines, 1-40 keys (distinct runtime types) with unique values, compute functions that yield 0-3 times or fail with probability 1/8; every 5th history uses 300-3000 keys to force copy-on-write growth and rehash under lock-free readers; call/return recorded at the client boundary with one atomic logical clock; checked with porcupine (partitioned by key) against a sequential map: Get returns the stored value or nil, Compute stores its value only if absent and not failed. A checker timeout is inconclusive. (2) codec rounds: 2-16 goroutines released by a barrier run 10 calls per type (Marshal of value and pointer, encoder.Encode under a random option set, Unmarshal under 2 configs and into interface{}, Pretouch, Valid, Get) over 1-8 types that no codec exists for yet (fresh reflect.StructOf types with unique field names; in the first 3 rounds of a process the recursive/embedded catalogue types), half of them in the same order, half shuffled; afterwards each call is run alone and must give the identical result. The race-detector runs report data races on caches, pools and tables (deduplicated by the innermost sonic frames of the two stacks)",
		Assumptions: []string{"one atomic counter ticked before each call and after each return orders operations consistently with real time", "the race detector reports the unsynchronised conflicting accesses it observes; absence of a report is not absence of a race", "only executions (interleavings) actually produced are decided"},
		MinEvals:    1500, MinEvalsThorough: 100000,
		// a watchdog expiry is inconclusive here: an instrumented, oversubscribed run can be that slow
		HangIsViolation: false,
		Runs: func(string) []*Run {
			return []*Run{
				{Name: "plain", Flavor: "plain", NBatch: n(4, 16), TimeoutS: n(900, 6000)},
				{Name: "plain-2procs", Flavor: "plain", NBatch: n(3, 8), Env: []string{"GOMAXPROCS=2"}, TimeoutS: n(900, 6000)},
				// 4 procs per instrumented worker: the batches run side by side on 16 cores
				{Name: "race", Flavor: "race", Mode: "race", NBatch: n(3, 16), Env: []string{"GOMAXPROCS=4"}, TimeoutS: n(1200, 6000)},
				{Name: "race-vm-optdec", Flavor: "race", Mode: "race", NBatch: n(1, 8), Env: []string{"GOMAXPROCS=4", "SONIC_ENCODER_USE_VM=1", "SONIC_USE_OPTDEC=1"}, TimeoutS: n(1200, 6000)},
			}
		},
	}
	plans["C16"] = &Plan{
		Level: "exploration",
		Rule: "per case one shared node in its raw state, obtained in one of the 5 documented ways (NewRawConcurrentRead, Searcher{ConcurrentRead}.GetByPath, GetWithOptions(ConcurrentRead), a plain search result after LoadAll(), after Load()), at the root or at a seeded sub-path of the document (wide objects of 1-60 members on both sides of the 16-pair index threshold with escaped keys, arrays of 1-40 elements, scalars, structure-random documents); 2-12 goroutines released by a barrier each run the whole operation list (~12 paths x 3 accessors + 5 root reads; accessors: Raw, Interface, MarshalJSON, typed accessors by kind, Map, Array, InterfaceUseNumber, TypeSafe/Valid, first child; GetByPath or step-wise Get/Index) in their own order, a third in list order, half of the cases with Gosched between reads; oracle = the same operation on a private identically obtained node, single-threaded, computed beforehand. Len/Cap are not exercised on lazy nodes (finding B9). The race-detector run reports unsynchronised accesses",
		Assumptions: []string{"the race detector reports the unsynchronised conflicting accesses it observes; absence of a report is not absence of a race", "only executions (interleavings) actually produced are decided"},
		MinEvals:    8000, MinEvalsThorough: 500000,
		Runs: func(string) []*Run {
			return []*Run{
				{Name: "plain", Flavor: "plain", NBatch: n(4, 16), TimeoutS: n(900, 6000)},
				{Name: "plain-2procs", Flavor: "plain", NBatch: n(2, 8), Env: []string{"GOMAXPROCS=2"}, TimeoutS: n(900, 6000)},
				{Name: "race", Flavor: "race", Mode: "race", NBatch: n(4, 16), Env: []string{"GOMAXPROCS=4"}, TimeoutS: n(1200, 6000)},
			}
		},
	}
	plans["C18"] = &Plan{
		Level: "exploration",
		Rule: "single-switch metamorphic relations: for a switch S and a random setting R of the 15 other switches, the same value/document is run with R and with R+S and the difference must be exactly S's documented effect: EscapeHTML == encoding/json.HTMLEscape(out_R); SortMapKeys changes member order only (and top-level map keys ascend); NoNullSliceOrMap == out_R of the value with nil slices/maps made empty; ValidateString(encode) == out_R with invalid UTF-8 replaced by \\ufffd; EncodeNullForInfOrNan == out_R of the value with NaN/Inf replaced by a sentinel, sentinel -> null, and no change without NaN/Inf; CompactMarshaler changes no token; NoQuoteTextMarshaler/NoValidateJSONMarshaler change nothing for types without such marshalers; NoEncoderNewline only removes the stream encoder's newline; UseInt64/UseNumber change only how numbers land in interface{}; CopyString/NoValidateJSONSkip change nothing on valid documents; DisallowUnknownFields agrees with encoding/json's DisallowUnknownFields on which documents have unknown keys and changes no accepted value; ValidateString(decode) changes nothing for clean strings and equals decoding the UTF-8-corrected document; UseUnicodeErrors changes nothing without lone surrogate escapes and never changes a value silently; CaseSensitive == encoding/json on the document without the keys that match only case-insensitively. Entry points: encoder.Encode/EncodeInto/MarshalToString/MarshalIndent/stream encoder vs Froze().Marshal, decoder.Decoder+SetOptions/UnmarshalFromString vs Froze().Unmarshal with the same switches. distinct = hash(switch, other switches, type, value/document)",
		Assumptions: stdAssumptions, MinEvals: 20000, MinEvalsThorough: 1000000,
		Runs: func(string) []*Run {
			return []*Run{
				{Name: "jit", Flavor: "plain", NBatch: 16, TimeoutS: n(900, 3000)},
				{Name: "vm-optdec", Flavor: "plain", NBatch: n(4, 16), Env: []string{"SONIC_ENCODER_USE_VM=1", "SONIC_USE_OPTDEC=1"}, TimeoutS: n(900, 3000)},
			}
		},
	}
	plans["C11"] = &Plan{
		Level:       "exploration",
		Rule:        "the C01 case list (same seed => same (type, configuration, pre-populated destination, document) cases) is decoded in three processes: jitdec, SONIC_USE_OPTDEC=1, SONIC_USE_OPTDEC=1+SONIC_USE_FASTMAP=1; each case yields a digest (error-or-not + canonical deep dump of the destination) and the digests are compared across processes; every process also reports acceptance of a structurally malformed document. distinct = hash(type descriptor, config, document); non-trivial = document length >= 2. The verif bridge reports the implementation each process really ran; identical configurations make the run inconclusive",
		Assumptions: []string{"both implementations are run on identical inputs in separate processes; equality of digests (FNV-1a 64 of a canonical dump) is taken as equality of values", "only executions actually produced are decided"},
		MinEvals:    20000, MinEvalsThorough: 1000000,
		Runs: func(string) []*Run {
			nb := n(8, 32)
			return []*Run{
				{Name: "jit", Flavor: "plain", NBatch: nb, TimeoutS: n(900, 3000)},
				{Name: "optdec", Flavor: "plain", NBatch: nb, Env: []string{"SONIC_USE_OPTDEC=1"}, TimeoutS: n(900, 3000)},
				{Name: "optdec-fastmap", Flavor: "plain", NBatch: nb, Env: []string{"SONIC_USE_OPTDEC=1", "SONIC_USE_FASTMAP=1"}, TimeoutS: n(900, 3000)},
			}
		},
		Post: crossDiff("jit", "optdec", "optdec-fastmap"),
	}
	plans["C12"] = &Plan{
		Level:       "exploration",
		Rule:        "the C03 value list (types, values, passing modes) is encoded with encoder.Encode under a random one of the 2^9 option sets (SortMapKeys forced when the type holds a map or interface, since unsorted order is undefined) in a JIT process and in a SONIC_ENCODER_USE_VM=1 process; digests (error-or-not + output bytes) are compared. distinct = hash(type, passing mode, option set, value dump)",
		Assumptions: []string{"both back ends are run on identical inputs in separate processes; equality of digests (FNV-1a 64 of the output bytes) is taken as byte equality", "only executions actually produced are decided"},
		MinEvals:    20000, MinEvalsThorough: 1000000,
		Runs: func(string) []*Run {
			nb := n(8, 32)
			return []*Run{
				{Name: "jit", Flavor: "plain", NBatch: nb, TimeoutS: n(900, 3000)},
				{Name: "vm", Flavor: "plain", NBatch: nb, Env: []string{"SONIC_ENCODER_USE_VM=1"}, TimeoutS: n(900, 3000)},
			}
		},
		Post: crossDiff("jit", "vm"),
	}
	plans["C13"] = &Plan{
		Level:       "exploration",
		Rule:        "inputs = block sweeps (6 document shapes and plain strings x length 0..L x position x 14 special byte groups, L=70 quick/160 thorough) + seeded random/mutated documents, raw byte strings, escape bodies, number literals and float/int values; each input is run through every public API backed by a native routine (Valid, Unmarshal into interface{}/struct/RawMessage under 2 configs, Skip, Get with 7 paths, NewRaw+LoadAll+MarshalJSON, Preorder event stream, Quote, unquote, HTMLEscape, utf8 validate/correct, string Marshal/Unmarshal, number parse and format) and the transcript digest is compared between an AVX2 process and a SONIC_MODE=noavx2 process. The bridge reports the installed native table",
		Assumptions: []string{"both instruction-set variants are run on identical inputs in separate processes; transcript digest equality is taken as result equality (error positions included)", "only executions actually produced are decided"},
		MinEvals:    50000, MinEvalsThorough: 1000000,
		Runs: func(string) []*Run {
			nb := n(8, 32)
			return []*Run{
				{Name: "avx2", Flavor: "plain", NBatch: nb, TimeoutS: n(900, 3000)},
				{Name: "sse", Flavor: "plain", NBatch: nb, Env: []string{"SONIC_MODE=noavx2"}, TimeoutS: n(900, 3000)},
			}
		},
		Post: crossDiff("avx2", "sse"),
	}
	plans["C14"] = &Plan{
		Level: "exploration",
		Rule: "valid documents (structure-random with duplicate/empty/escaped keys and white-space runs, skipper-stress siblings containing brackets and quotes, objects with 1-40 members over 28 key names = duplicates on both sides of the 16-pair index threshold, nesting to depth 400) x ~12 paths each (existing at every depth, missing key, empty key, prefix/extension/case variant of a key, index = len, index >> len, wrong kind, through scalars, empty path). Every path goes through Get, GetFromString, GetCopyFromString, GetWithOptions under all 8 SearchOptions, Node.GetByPath and step-wise Get/Index from a lazy, a Load()ed and a LoadAll()ed root; oracle = reference parser with first-occurrence lookup: existence and Raw text must match. Located nodes: Interface/InterfaceUseNumber vs encoding/json on the span, MarshalJSON token stream, typed accessors, Len, Values/Properties/ForEach order and keys, Array/Map(+UseNode) sizes, IndexPair; whole documents: Preorder event stream vs reference tree walk. distinct = hash(document)",
		Assumptions: stdAssumptions, MinEvals: 5000, MinEvalsThorough: 300000,
		Runs: func(string) []*Run {
			return []*Run{
				{Name: "avx2", Flavor: "plain", NBatch: 16, TimeoutS: n(900, 3000)},
				{Name: "sse", Flavor: "plain", NBatch: n(2, 8), Env: []string{"SONIC_MODE=noavx2"}, TimeoutS: n(900, 3000)},
			}
		},
	}
	plans["C15"] = &Plan{
		Level: "exploration",
		Rule: "case = (document, sequence of 1-30 operations). Documents: scalars, empty containers, structure-random documents with duplicate/empty/escaped keys, objects with 15/16/17/18/33 members (hash-index threshold) and duplicates. Every operation (Get, Index, Len, Set, SetByIndex, Add, Unset, UnsetByIndex, Pop, Move, SortKeys(rec), Load, LoadAll, touch reads, iteration) is applied to the root or a node reached from it, on SIX replicas of the same document that differ only in how they were obtained (NewRaw, search result, Load()ed, LoadAll()ed, built with constructors, partially touched ConcurrentRead node; new values inserted as raw or constructed nodes) and on an ordered-tree model. After each operation: all replicas must observe the same result, and equal the model where the model defines it; after each mutation every replica's MarshalJSON must equal the model's serialisation as a token stream; at the end Interface() must equal encoding/json on the model text. SortKeys is generated only on objects whose subtree has no duplicated key (order of equal keys unspecified). distinct = hash(document, sequence index)",
		Assumptions: append([]string{"the ordered-tree model in harness/cmd/worker/c15.go encodes the documented semantics (DESIGN appendix A); results the documentation leaves open are only compared across replicas"}, stdAssumptions...),
		MinEvals:    5000, MinEvalsThorough: 300000,
		Runs: func(string) []*Run {
			return []*Run{{Name: "ast", Flavor: "plain", NBatch: 16, TimeoutS: n(900, 3000)}}
		},
	}
	plans["C17"] = &Plan{
		Level: "fault_enumeration",
		Rule: "decoder: inputs = concatenations of 1-5 values (scalars incl. top-level numbers, strings with escapes, containers) with every separator shape (none, spaces, newlines, > 4096 spaces) and trailing classes (clean, white space, garbage byte, stray closer, truncated value). For small inputs (<= 40 bytes): the whole input, EOF-with-data, EVERY single cut, every pair of cuts with an interleaved empty read (inputs <= 26 bytes), and a reader FAILURE at EVERY byte position (whole reads and 1-byte reads) are enumerated; larger inputs (values crossing 4096/8192/16384-byte buffers): whole, 1-byte reads and 6 sampled chunkings with cuts at buffer boundaries, empty reads, EOF-with-data and a failure position. Oracle: encoding/json.Decoder driven by the very same reader behaviour: identical value sequence, identical terminal class (io.EOF / error / the injected error by identity), Decode never returns nil without InputOffset advancing (logical progress, bounded by len+3 calls). encoder: random values, Writer failing at EVERY write index, short writes, repeated Encode; bytes must equal Marshal (+newline unless disabled). distinct = hash(input bytes / expected bytes)",
		Assumptions: append([]string{"tolerated: when the reader FAILS (not EOF) immediately after a top-level number, sonic returns the number and then the error, encoding/json returns the error only"}, stdAssumptions...),
		MinEvals:    600, MinEvalsThorough: 50000,
		Runs: func(string) []*Run {
			return []*Run{
				{Name: "jit", Flavor: "plain", NBatch: 16, TimeoutS: n(900, 3000)},
				{Name: "optdec", Flavor: "plain", NBatch: n(2, 8), Env: []string{"SONIC_USE_OPTDEC=1"}, TimeoutS: n(900, 3000)},
			}
		},
	}
	plans["C19"] = &Plan{
		Level: "exploration",
		Rule: "decode: seeded number literals (boundary integers of every width +-2, 15-22 and 30-1100 digit mantissas, exponents around +-308/324/400, long zero runs, exact float64/float32 midpoints built with math/big and perturbed in a far digit, subnormal/min-normal/max boundaries, zeros) through 30+ routes per literal (float64/float32/every integer width/json.Number/interface{} under default, UseNumber, UseInt64/',string' fields/integer map keys/ast accessors/Interface/Preorder callbacks) against strconv and encoding/json; " +
			"format: seeded interesting float64/float32/int64/uint64 through scalar, struct, ',string', map-key and interface{} routes byte-for-byte against encoding/json and parsed back; f32all: float32 bit patterns in blocks of 4096 (every pattern in thorough => exhaustive for float32 formatting and shortest-text decoding; stride 1021 in quick); f64fmt: blocks of random+structured float64. distinct = hash of literal / value bits / first pattern of a block; all are non-trivial",
		Assumptions: stdAssumptions, MinEvals: 50000, MinEvalsThorough: 1000000,
		Runs: func(string) []*Run {
			return []*Run{
				{Name: "main", Flavor: "plain", NBatch: 16, TimeoutS: n(600, 3000)},
				{Name: "main-sse", Flavor: "plain", NBatch: n(2, 8), Env: []string{"SONIC_MODE=noavx2"}, TimeoutS: n(600, 3000)},
				{Name: "main-optdec", Flavor: "plain", NBatch: n(2, 8), Env: []string{"SONIC_USE_OPTDEC=1"}, TimeoutS: n(600, 3000)},
				{Name: "main-vm", Flavor: "plain", NBatch: n(2, 8), Env: []string{"SONIC_ENCODER_USE_VM=1"}, TimeoutS: n(600, 3000)},
				{Name: "f32all", Flavor: "plain", Mode: "f32all", NBatch: n(16, 64), TimeoutS: n(600, 3000)},
				{Name: "f32all-sse", Flavor: "plain", Mode: "f32all", NBatch: n(4, 64), Env: []string{"SONIC_MODE=noavx2"}, TimeoutS: n(600, 3000)},
				{Name: "f64fmt", Flavor: "plain", Mode: "f64fmt", NBatch: n(8, 32), TimeoutS: n(600, 3000)},
			}
		},
	}
}

// historyDiff (C09): in every run, batch 0 is the baseline history; every other
// batch (another history in another fresh process) must give the same digest for
// every probe.
func historyDiff(v *Verdict, runs []*Run, results map[string][]*BatchResult) {
	compared, differed, histories := int64(0), int64(0), 0
	var descs []string
	for _, r := range runs {
		brs := results[r.Name]
		if len(brs) == 0 || brs[0] == nil || !brs[0].Completed || len(brs[0].Digests) == 0 {
			v.Inconcl = append(v.Inconcl, fmt.Sprintf("run %s: the baseline history did not complete: nothing to compare with", r.Name))
			continue
		}
		base := brs[0].Digests
		for b := 1; b < len(brs); b++ {
			if brs[b] == nil {
				continue
			}
			hist := ""
			for _, n := range brs[b].Notes {
				if n["msg"] == "history" {
					hist = fmt.Sprint(n["detail"])
				}
			}
			if len(brs[b].Digests) > 0 {
				histories++
				if len(descs) < 40 {
					descs = append(descs, fmt.Sprintf("%s/%d: %s", r.Name, b, head(hist, 200)))
				}
			}
			perBatch := 0
			for i, d := range brs[b].Digests {
				bd, ok := base[i]
				if !ok {
					continue
				}
				compared++
				if strings.SplitN(d, " ", 2)[0] == strings.SplitN(bd, " ", 2)[0] {
					continue
				}
				differed++
				perBatch++
				if perBatch > 5 {
					continue
				}
				v.Violations = append(v.Violations, Violation{Run: r.Name, Batch: b, Case: i, API: "probe", AlsoBatch1: 1,
					Msg:    "the result of a call depends on what the process did before",
					Detail: map[string]string{"baseline_history": bd, "this_history": d, "history": hist}})
				v.VCount++
			}
		}
	}
	if v.Extra == nil {
		v.Extra = map[string]interface{}{}
	}
	v.Extra["probe_results_compared_with_baseline"] = compared
	v.Extra["probe_results_differing"] = differed
	v.Extra["histories_compared"] = histories
	v.Extra["histories"] = descs
	if compared == 0 {
		v.Inconcl = append(v.Inconcl, "no probe results were compared")
	}
}

func init() {
	plans["C09"] = &Plan{
		Level: "exploration",
		Rule: "every worker process is one history. All processes of a run execute the same probe list (from the seed only): ConfigStd.Marshal (value, pointer, inside []interface{}, inside map[string]interface{}) and Unmarshal (ConfigStd/ConfigDefault, fresh or pre-populated destination) over ~45 history-sensitive types (pairs of distinct types that print identically: same package name in two packages and function-local types; recursive and mutually recursive types; named structs nested 6 deep = beyond the inline depth; >50 fields; embedding; non-empty interfaces; pointer-receiver marshalers at always-inlined depths; every omitempty kind) plus seeded random types/values/documents of the C01/C03 generators. " +
			"Batch 0 = baseline (no prelude, list order; its agreement with encoding/json is counted). The other histories: shuffled/reversed order, pointer-before-value and value-before-pointer, decode-before-encode and reverse, PretouchMany of all probe types (one module) with random MaxInlineDepth in {1,2,3,4,10} and RecursiveDepth in {0,1,2,5}, PretouchMany in random chunks, Pretouch one by one over a random subset with random options, pointer types pretouched first, 2100 throw-away types through both caches (rehash), 4400 through the encoder cache and 4400 through the decoder cache (two rehashes), probes interleaved with throw-away types and Pretouch of later probe types, everything in one module at inline depth 1. Oracle: per-probe digest equal to the baseline's (offline, across processes); in every process each probe is executed a second time at the end (after a collection, other order) and must repeat its first result. WithCompileEncOnlyOmitNull is not used (documented to change the encoding). distinct = hash(probe, result) and hash(history)",
		Assumptions: []string{"equality of digests (FNV-1a 64 of the output bytes / canonical dump of the destination) is taken as equality of results", "probes use ConfigStd.Marshal (sorted map keys), so that results are defined up to bytes", "only the histories actually produced are decided"},
		MinEvals:    4000, MinEvalsThorough: 100000,
		Runs: func(string) []*Run {
			rs := []*Run{
				{Name: "jit", Flavor: "plain", NBatch: n(17, 65), TimeoutS: n(900, 3000), MaxAttempts: 2},
				{Name: "vm-optdec", Flavor: "plain", NBatch: n(6, 31), Env: []string{"SONIC_ENCODER_USE_VM=1", "SONIC_USE_OPTDEC=1"}, TimeoutS: n(900, 3000), MaxAttempts: 2},
				{Name: "sse", Flavor: "plain", NBatch: n(3, 16), Env: []string{"SONIC_MODE=noavx2"}, TimeoutS: n(900, 3000), MaxAttempts: 2},
			}
			if tier == "thorough" {
				rs = append(rs, &Run{Name: "jit126", Flavor: "plain126", NBatch: 31, TimeoutS: 3000, MaxAttempts: 2})
			}
			return rs
		},
		Post: historyDiff,
	}
}

func init() {
	c10a := crossDiff("calm", "gc", "gc-sse", "stack", "gc-2procs")
	c10b := crossDiff("calm-dec", "syncgc")
	c10c := crossDiff("calm126", "gc126", "stack126")
	c10d := crossDiff("calm-optdec-vm", "gc-optdec-vm")
	plans["C10"] = &Plan{
		Level: "exploration",
		Rule: "the same seeded case list is executed in a calm process and in stressed processes and the per-case digests (encoded text; dump of what it decodes back to; dump of decoded destinations) must be equal. Cases: ConfigStd.Marshal + Unmarshal of the text, and Unmarshal of documents (fresh and pre-populated destinations), over 16 callback types (struct/string/pointer-carrying map keys through TextMarshaler/TextUnmarshaler, json.Marshaler/Unmarshaler with value and pointer receivers, TextMarshaler values, omitzero fields, a struct mixing them with every pointer-carrying field shape) and over the random types of the C01/C03 generators (every opcode family, out-of-line recursion). Every call runs on a fresh goroutine after 0-110 padding frames (entry into generated code at varying distance from the end of a small stack). In stressed processes every callback invoked FROM generated code performs a seeded action: runtime.GC; GC + 3000 allocations of 11 size classes + GC (recycles freed slots); 3000-frame recursion (the stack is copied with generated frames on it); debug.Stack/runtime.Callers/runtime.Stack(all); yield + allocations; hand-off (another goroutine collects twice while this one is parked = stack scan/shrink of a parked goroutine with generated frames); a nested sonic Marshal+Unmarshal (re-entrancy); GC + recursion + churn. " +
			"Process overlays: GOGC=1 + GODEBUG=gccheckmark=1,clobberfree=1 (the runtime re-marks with the world stopped and dies on an object the concurrent mark missed = missing write barrier; freed objects are overwritten) + a goroutine forcing collections; 'stack': SIGPROF at 4000 Hz + a goroutine dumping all goroutine stacks every 300us + forced collections; SONIC_SYNC_GC=1 in decode-only processes (collection between decoder opcodes). Retention monitor: the last 40 decoded destinations/outputs are re-read (inputs already dropped by the harness) and every encoded value is encoded again ~40 cases later; any change is a violation. Worker death (any fatal error of the runtime's self-checks, SIGSEGV) is a violation with the running case recorded. distinct = hash(case description, value/document)",
		Assumptions: []string{"the Go runtime's debug checks (gccheckmark, clobberfree, traceback/stack-copy consistency throws) report the inconsistencies they are designed for; a fault confined to an unreached GC point is not observed", "digest equality (FNV-1a 64) is taken as equality", "only the executions (collection/stack-move points) actually produced are decided"},
		MinEvals:    3000, MinEvalsThorough: 100000,
		Runs: func(string) []*Run {
			gcEnv := []string{"VERIF_C10=gc", "GOGC=1", "GODEBUG=gccheckmark=1,clobberfree=1"}
			nb := n(4, 16)
			rs := []*Run{
				{Name: "calm", Flavor: "plain", NBatch: nb, TimeoutS: n(900, 6000)},
				{Name: "gc", Flavor: "plain", NBatch: nb, Env: gcEnv, TimeoutS: n(900, 6000)},
				{Name: "gc-sse", Flavor: "plain", NBatch: n(1, 4), Env: append([]string{"SONIC_MODE=noavx2"}, gcEnv...), TimeoutS: n(900, 6000)},
				{Name: "gc-2procs", Flavor: "plain", NBatch: n(1, 8), Env: append([]string{"GOMAXPROCS=2"}, gcEnv...), TimeoutS: n(900, 6000)},
				{Name: "stack", Flavor: "plain", NBatch: nb, Env: []string{"VERIF_C10=stack", "GOGC=5"}, TimeoutS: n(900, 6000)},
				// the implementations without generated code are held to the same statement (unsafe Go code)
				{Name: "calm-optdec-vm", Flavor: "plain", NBatch: n(1, 8), Env: []string{"SONIC_USE_OPTDEC=1", "SONIC_ENCODER_USE_VM=1"}, TimeoutS: n(900, 6000)},
				{Name: "gc-optdec-vm", Flavor: "plain", NBatch: n(1, 8), Env: append([]string{"SONIC_USE_OPTDEC=1", "SONIC_ENCODER_USE_VM=1"}, gcEnv...), TimeoutS: n(900, 6000)},
				{Name: "calm-dec", Flavor: "plain", Mode: "dec", NBatch: n(2, 8), TimeoutS: n(900, 6000)},
				{Name: "syncgc", Flavor: "plain", Mode: "dec", NBatch: n(2, 8), Env: []string{"SONIC_SYNC_GC=1", "GODEBUG=clobberfree=1"}, TimeoutS: n(900, 6000)},
			}
			if tier == "thorough" {
				// the other toolchain: another runtime (collector, stack maps, moduledata layout funcdata_go126.go)
				rs = append(rs,
					&Run{Name: "calm126", Flavor: "plain126", NBatch: 8, TimeoutS: 6000},
					&Run{Name: "gc126", Flavor: "plain126", NBatch: 8, Env: gcEnv, TimeoutS: 6000},
					&Run{Name: "stack126", Flavor: "plain126", NBatch: 8, Env: []string{"VERIF_C10=stack", "GOGC=5"}, TimeoutS: 6000})
			}
			return rs
		},
		Post: func(v *Verdict, runs []*Run, results map[string][]*BatchResult) {
			merge := func(x map[string]interface{}) {
				for k, a := range x {
					if b, ok := v.Extra[k]; ok {
						if ai, ok1 := a.(int64); ok1 {
							if bi, ok2 := b.(int64); ok2 {
								v.Extra[k] = ai + bi
								continue
							}
						}
					}
					v.Extra[k] = a
				}
			}
			c10a(v, runs, results)
			x := v.Extra
			v.Extra = nil
			c10b(v, runs, results)
			merge(x)
			x = v.Extra
			v.Extra = nil
			c10d(v, runs, results)
			merge(x)
			if tier == "thorough" {
				x = v.Extra
				v.Extra = nil
				c10c(v, runs, results)
				merge(x)
			}
		},
	}
}

// additions of the second build session to what the checks feed and watch (kept apart so that the
// original descriptions above stay readable)
func init() {
	add := func(p, text string) { plans[p].Rule += " " + text }
	add("C01", "Every decoded slice must have len <= cap.")
	add("C05", "Also scalar destinations (json.Number also quoted, bool, float32, uint8, `,string` fields, number-keyed maps) and quoted-number prefixes; short inputs that are not valid UTF-8, and one input in 16 otherwise, are re-run on the heap with two other histories of the internal pools (a primer document decoded between all entry points) and must give the same transcript.")
	add("C07", "Also runs of 1e3..1e6 UTF-8 continuation bytes around a syntax error, objects with a key of that size, decoder.Decoder with DisallowUnknownFields, HTMLEscape into a 70000-byte destination, Buffered/More after a failed stream Decode, cycles made of pointers only; an UnsupportedValueError must carry its description.")
	add("C11", "One case in four also decodes three concatenated values with one decoder.Decoder (compared value by value up to the first error).")
	add("C14", "After every copying search the caller reuses its buffer and the located node is checked again.")
	add("C15", "Further operations: SetAny/AddAny/SetAnyByIndex (values opaque in the model), IndexPair, IndexOrGet, GetByPath, Map/Array/Interface views mid-sequence; the constructed replica builds half of its pairs as Pair literals.")
	add("C16", "Further node families: partly read single-threaded, then Load()/LoadAll(); located value malformed at its first level (either face of the node or its syntax error is accepted; a case that does not finish is decided from the readers' stacks: all parked on the node mutex = deadlock).")
	add("C17", "Further: typed destinations with values of the wrong type (the stream must go on), *ast.Node destinations against encoding/json into RawMessage, readers that report their failure once together with the last data (every byte position; oracle: the values complete in the delivered bytes, then the reader error by identity).")
	add("C18", "CopyString is also compared over four-value streams (typed and *ast.Node destinations read after the stream was consumed); UseUnicodeErrors documents carry a twice-quoted literal for a `,string` field.")
}
