// Command orch is the orchestrator: it derives the plan of a property's check,
// runs worker processes (the only programs that link sonic), applies the
// offline checkers, decides the three-valued verdict and writes the evidence.
package main

import (
	"regexp"
	"encoding/json"
	"fmt"
	"os"
	"os/exec"
	"path/filepath"
	"sort"
	"strconv"
	"strings"
	"time"
)

var (
	verifDir = "/verif"
	workDir  = "/verif/.work"
	tier     = "quick"
	seed     = uint64(1)
	maxPar   = 16
	prop     string
	t0       = time.Now()

	openWaivers []string
	findings    KnownFile
)

type Finding struct {
	ID         string   `json:"id"`
	Property   string   `json:"property"`
	Also       []string `json:"also_properties,omitempty"`
	Status     string   `json:"status"` // open | fixed
	Title      string   `json:"title"`
	What       string   `json:"what"`
	Mode       string   `json:"mode"` // waiver | avoid | witness-only
	Witness    string   `json:"witness"`
	WitnessEnv []string `json:"witness_env,omitempty"`
	Flavor     string   `json:"witness_flavor,omitempty"`
}

type KnownFile struct {
	Findings []Finding `json:"findings"`
	Fixed    []string  `json:"fixed"`
}

func logf(format string, a ...interface{}) {
	fmt.Fprintf(os.Stderr, "[%6.1fs] "+format+"\n", append([]interface{}{time.Since(t0).Seconds()}, a...)...)
}

func fatalf(format string, a ...interface{}) {
	fmt.Fprintf(os.Stderr, "orch: "+format+"\n", a...)
	fmt.Printf("INCONCLUSIVE property=%s harness error\n", prop)
	os.Exit(2)
}

func (f *Finding) appliesTo(p string) bool {
	if f.Property == p {
		return true
	}
	for _, a := range f.Also {
		if a == p {
			return true
		}
	}
	return false
}

// evidPath: /verif/evidence/..., or a private directory when VERIF_REPO points the
// build at a scratch copy of the repository (seed testing in parallel; never used by
// the registered commands).
func evidPath(parts ...string) string {
	base := filepath.Join(verifDir, "evidence")
	if altRepo != "" {
		base = filepath.Join(workDir, "alt", fmt.Sprint(os.Getpid()), "evidence")
	}
	return filepath.Join(append([]string{base}, parts...)...)
}

var altRepo = ""

var raceSeen = map[string]bool{}

// raceBlocks splits a GORACE log into its report blocks.
func raceBlocks(log string) []string {
	var out []string
	parts := strings.Split(log, "WARNING: DATA RACE")
	for _, p := range parts[1:] {
		if k := strings.Index(p, "=================="); k >= 0 {
			p = p[:k]
		}
		out = append(out, "WARNING: DATA RACE"+p)
	}
	return out
}

var raceFrameRe = regexp.MustCompile(`(?m)^  (\S+)\(\S*\)$`)

// raceKey: the two access stacks reduced to their innermost frames inside sonic (or
// the harness), line numbers stripped - reports of the same pair of accesses collapse.
func raceKey(blk string) string {
	secs := strings.Split(strings.TrimPrefix(blk, "WARNING: DATA RACE\n"), "\n\n")
	var keys []string
	for _, sec := range secs {
		if !(strings.Contains(sec, "Write at") || strings.Contains(sec, "Read at") || strings.Contains(sec, "Previous write") || strings.Contains(sec, "Previous read")) {
			continue
		}
		fr := ""
		for _, m := range raceFrameRe.FindAllStringSubmatch(sec, -1) {
			if strings.Contains(m[1], "bytedance/sonic") || strings.HasPrefix(m[1], "main.") {
				fr = m[1]
				break
			}
		}
		if fr == "" {
			if m := raceFrameRe.FindStringSubmatch(sec); m != nil {
				fr = m[1]
			}
		}
		kind := strings.Fields(strings.TrimSpace(sec))
		k := ""
		if len(kind) > 1 {
			k = strings.Join(kind[:2], " ")
		}
		keys = append(keys, k+" "+fr)
	}
	if len(keys) > 2 {
		keys = keys[:2]
	}
	return strings.Join(keys, " <-> ")
}

func main() {
	if v := os.Getenv("VERIF_DIR"); v != "" {
		verifDir = v
		workDir = filepath.Join(v, ".work")
	}
	if v := os.Getenv("VERIF_REPO"); v != "" && v != "/repo" {
		altRepo = v
	}
	if len(os.Args) < 2 {
		fmt.Fprintln(os.Stderr, "usage: orch <property> [quick|thorough] | orch <property> --replay <path>")
		os.Exit(2)
	}
	prop = os.Args[1]
	if v := os.Getenv("VERIF_TIER"); v != "" {
		tier = v
	}
	replay := ""
	for i := 2; i < len(os.Args); i++ {
		switch os.Args[i] {
		case "quick", "thorough":
			tier = os.Args[i]
		case "--replay":
			if i+1 < len(os.Args) {
				replay = os.Args[i+1]
				i++
			}
		}
	}
	if v := os.Getenv("VERIF_SEED"); v != "" {
		if n, err := strconv.ParseUint(v, 10, 64); err == nil {
			seed = n
		}
	}
	if v := os.Getenv("VERIF_PAR"); v != "" {
		if n, err := strconv.Atoi(v); err == nil && n > 0 {
			maxPar = n
		}
	}
	// known findings
	if b, err := os.ReadFile(filepath.Join(verifDir, "known_findings.json")); err == nil {
		if err := json.Unmarshal(b, &findings); err != nil {
			fatalf("known_findings.json: %v", err)
		}
	}
	for _, f := range findings.Findings {
		if f.Status == "open" {
			openWaivers = append(openWaivers, f.ID)
		}
	}
	defer cleanupBuilt()
	if replay != "" {
		os.Exit(doReplay(replay))
	}
	plan, ok := plans[prop]
	if !ok {
		fatalf("no check for property %s", prop)
	}
	code := execute(plan)
	cleanupBuilt()
	os.Exit(code)
}

func execute(plan *Plan) int {
	dir := filepath.Join(workDir, "run", fmt.Sprintf("%s-%s-%d", prop, tier, os.Getpid()))
	// scratch of earlier runs of the same check that were kept for inspection
	if old, _ := filepath.Glob(filepath.Join(workDir, "run", fmt.Sprintf("%s-%s-*", prop, tier))); len(old) > 0 {
		for _, o := range old {
			if st, err := os.Stat(o); err == nil && time.Since(st.ModTime()) > 2*time.Hour || os.Getenv("VERIF_CLEAN") != "" {
				os.RemoveAll(o)
			}
		}
	}
	os.RemoveAll(dir)
	if err := os.MkdirAll(dir, 0o755); err != nil {
		fatalf("%v", err)
	}
	keep := false
	defer func() {
		if !keep && os.Getenv("VERIF_KEEP") == "" {
			os.RemoveAll(dir)
		}
	}()
	runs := plan.Runs(tier)
	for _, r := range runs {
		r.Prop = prop
	}
	logf("property %s tier %s seed %d: %d runs", prop, tier, seed, len(runs))
	results := runAll(runs, dir)

	v := &Verdict{Plan: plan, Dir: dir, Counters: map[string]int64{}, KnownSeen: map[string]int{}, PerRun: map[string]interface{}{}}
	hashes := map[uint64]struct{}{}
	for _, r := range runs {
		var ev, nt int64
		crashes := 0
		completed := 0
		cfg := map[string]string{}
		for _, br := range results[r.Name] {
			if br == nil {
				continue
			}
			ev += br.Evals
			nt += br.Nontrivial
			for k, n := range br.Counters {
				v.Counters[k] += n
			}
			for k, n := range br.Known {
				v.KnownSeen[k] += n
			}
			v.KnownEx = append(v.KnownEx, br.KnownEx...)
			for _, x := range br.Violations {
				v.Violations = append(v.Violations, x)
			}
			v.VCount += br.VCount
			for _, x := range br.Crashes {
				v.Crashes = append(v.Crashes, x)
			}
			crashes += len(br.Crashes)
			// reports of the race detector (GORACE log_path files of a race-flavoured run)
			for _, rl := range br.RaceLogs {
				rb, err := os.ReadFile(rl)
				if err != nil {
					continue
				}
				for _, blk := range raceBlocks(string(rb)) {
					v.Counters["race_reports"]++
					key := raceKey(blk)
					if raceSeen[key] {
						continue
					}
					raceSeen[key] = true
					v.Counters["race_reports_distinct"]++
					v.Violations = append(v.Violations, Violation{Run: r.Name, Batch: br.Batch, Case: -1, API: "race detector", Msg: "DATA RACE: " + key, Detail: head(blk, 6000)})
					v.VCount++
				}
			}
			if br.Completed {
				completed++
			} else {
				v.Incomplete++
			}
			if br.TimedOut {
				v.TimedOut++
			}
			for _, n := range br.Notes {
				v.Notes = append(v.Notes, n)
			}
			if len(v.Samples) < 24 {
				for _, s := range br.Samples {
					if len(v.Samples) < 24 {
						v.Samples = append(v.Samples, s)
					}
				}
			}
			for _, h := range br.Hashes {
				if len(hashes) < 20_000_000 {
					hashes[h] = struct{}{}
				}
			}
			for k, x := range br.Config {
				cfg[k] = x
			}
		}
		v.Evals += ev
		v.PerRun[r.Name] = map[string]interface{}{"flavor": r.Flavor, "env": r.Env, "mode": r.Mode, "batches": r.NBatch,
			"batches_completed": completed, "calls": ev, "crashes": crashes, "observed_config": cfg}
	}
	v.Distinct = int64(len(hashes))
	// property specific offline checkers (cross-process diff, race logs, ...)
	if plan.Post != nil {
		plan.Post(v, runs, results)
	}
	return v.finish(runs, &keep)
}

// Verdict accumulates what the monitors observed.
type Verdict struct {
	Plan       *Plan
	Dir        string
	Evals      int64
	Distinct   int64
	Counters   map[string]int64
	KnownSeen  map[string]int
	KnownEx    []map[string]interface{}
	Violations []Violation
	VCount     int
	Crashes    []Violation
	Notes      []map[string]interface{}
	Samples    []interface{}
	PerRun     map[string]interface{}
	Incomplete int
	TimedOut   int
	Extra      map[string]interface{}
	Inconcl    []string
}

func (v *Verdict) finish(runs []*Run, keep *bool) int {
	plan := v.Plan
	// crashes: a known finding may claim a crash by signature
	var crashViol []Violation
	for _, c := range v.Crashes {
		if id := matchCrash(c); id != "" {
			v.KnownSeen[id]++
			continue
		}
		if strings.HasPrefix(c.Msg, "watchdog") && !plan.HangIsViolation {
			v.Inconcl = append(v.Inconcl, fmt.Sprintf("watchdog: run %s batch %d case %d", c.Run, c.Batch, c.Case))
			continue
		}
		crashViol = append(crashViol, c)
	}
	all := append(crashViol, v.Violations...)
	total := v.VCount + len(crashViol)

	// pinned witnesses of open findings for this property
	var kfLines []string
	kfEvidence := []map[string]interface{}{}
	for i := range findings.Findings {
		f := &findings.Findings[i]
		if f.Status != "open" || !f.appliesTo(prop) {
			continue
		}
		rep, what := runWitness(f)
		e := map[string]interface{}{"id": f.ID, "title": f.Title, "witness_reproduced": rep, "witness_output": what, "matching_cases_in_this_run": v.KnownSeen[f.ID]}
		kfEvidence = append(kfEvidence, e)
		if rep || v.KnownSeen[f.ID] > 0 {
			kfLines = append(kfLines, fmt.Sprintf("KNOWN-FINDING: property=%s %s %s", prop, f.ID, f.What))
		}
	}

	// replay files
	os.MkdirAll(evidPath("replay"), 0o755)
	if old, _ := filepath.Glob(evidPath("replay", fmt.Sprintf("%s-%s-s%d-*.json", prop, tier, seed))); len(old) > 0 {
		for _, o := range old {
			os.Remove(o)
		}
	}
	var lines []string
	runByName := map[string]*Run{}
	for _, r := range runs {
		runByName[r.Name] = r
	}
	for i, x := range all {
		if i >= 10 {
			break
		}
		rp := evidPath("replay", fmt.Sprintf("%s-%s-s%d-%d.json", prop, tier, seed, i))
		rec := map[string]interface{}{"property": prop, "tier": tier, "seed": seed, "violation": x}
		if r := runByName[x.Run]; r != nil {
			rec["run"] = r
		}
		if r := runByName[x.Also]; r != nil {
			rec["also_runs"] = []*Run{r}
		}
		b, _ := json.MarshalIndent(rec, "", " ")
		os.WriteFile(rp, b, 0o644)
		lines = append(lines, fmt.Sprintf("VIOLATION property=%s replay=%s", prop, rp))
		fmt.Fprintf(os.Stderr, "  violation: run=%s batch=%d case=%d api=%s: %s\n    %s\n", x.Run, x.Batch, x.Case, x.API, x.Msg, head(fmt.Sprint(x.Detail), 1500))
	}

	// classes of violations (api + message), for the human reader
	classes := map[string]int{}
	for _, x := range all {
		classes[x.Run+" | "+x.API+" | "+head(x.Msg, 90)]++
	}
	var cls []string
	for k, n := range classes {
		cls = append(cls, fmt.Sprintf("%6d  %s", n, k))
	}
	sort.Sort(sort.Reverse(sort.StringSlice(cls)))
	for i, l := range cls {
		if i < 40 {
			fmt.Fprintln(os.Stderr, "  class:", l)
		}
	}
	minEvals := plan.MinEvals
	if tier == "thorough" {
		// thorough case counts are bounded multiples (>= 3x) of the quick counts (worker: thoroughCap)
		minEvals = 2 * plan.MinEvals
	}
	if v.Evals < int64(minEvals) {
		v.Inconcl = append(v.Inconcl, fmt.Sprintf("only %d evaluations (< minimum %d)", v.Evals, minEvals))
	}
	if v.Distinct < 2 {
		v.Inconcl = append(v.Inconcl, "fewer than 2 distinct non-trivial cases")
	}
	if v.Incomplete > 0 && len(v.Crashes) == 0 {
		v.Inconcl = append(v.Inconcl, fmt.Sprintf("%d batches did not complete", v.Incomplete))
	}
	for _, n := range v.Notes {
		if s, _ := n["msg"].(string); strings.HasPrefix(s, "inconclusive") {
			v.Inconcl = append(v.Inconcl, fmt.Sprint(n["msg"], " ", n["detail"]))
		}
	}

	writeEvidence(v, total, kfEvidence)
	for _, l := range kfLines {
		fmt.Println(l)
	}
	if total > 0 {
		for _, l := range lines {
			fmt.Println(l)
		}
		fmt.Printf("RESULT property=%s tier=%s seed=%d violations=%d evaluations=%d wall=%.1fs\n", prop, tier, seed, total, v.Evals, time.Since(t0).Seconds())
		*keep = true
		return 1
	}
	if len(v.Inconcl) > 0 {
		sort.Strings(v.Inconcl)
		fmt.Printf("INCONCLUSIVE property=%s %s\n", prop, strings.Join(v.Inconcl, "; "))
		*keep = true
		return 2
	}
	fmt.Printf("HELD property=%s tier=%s seed=%d evaluations=%d distinct_nontrivial=%d known_findings=%d wall=%.1fs\n",
		prop, tier, seed, v.Evals, v.Distinct, len(kfLines), time.Since(t0).Seconds())
	return 0
}

// matchCrash is filled by known findings whose witness is a crash signature.
func matchCrash(c Violation) string {
	for _, f := range findings.Findings {
		if f.Status != "open" || !f.appliesTo(prop) {
			continue
		}
		if sig, ok := crashSigs[f.ID]; ok && sig(c) {
			return f.ID
		}
	}
	return ""
}

var crashSigs = map[string]func(Violation) bool{}

func runWitness(f *Finding) (bool, string) {
	if f.Witness == "" {
		return false, "no witness"
	}
	fl := f.Flavor
	if fl == "" {
		fl = "plain"
	}
	bin, err := buildWorker(fl)
	if err != nil {
		return false, err.Error()
	}
	cmd := exec.Command(bin, "-witness", f.Witness)
	cmd.Env = append(baseEnv(), f.WitnessEnv...)
	done := make(chan struct{})
	var out []byte
	go func() { out, _ = cmd.CombinedOutput(); close(done) }()
	select {
	case <-done:
	case <-time.After(120 * time.Second):
		if cmd.Process != nil {
			cmd.Process.Kill()
		}
		<-done
		return false, "witness timed out"
	}
	s := strings.TrimSpace(string(out))
	if strings.HasPrefix(s, "REPRO") {
		return true, head(s, 400)
	}
	if strings.HasPrefix(s, "NOREPRO") {
		return false, head(s, 400)
	}
	// a witness that kills the process reproduces a crash finding
	if crashWitness[f.ID] {
		return true, "process died: " + head(tail(s, 400), 400)
	}
	return false, head(s, 400)
}

var crashWitness = map[string]bool{}

func writeEvidence(v *Verdict, total int, kf []map[string]interface{}) {
	plan := v.Plan
	cov := map[string]interface{}{
		"evaluations":         v.Evals,
		"distinct_nontrivial": v.Distinct,
		"rule":                plan.Rule,
		"samples":             v.Samples,
		"counters":            v.Counters,
		"runs":                v.PerRun,
		"known_findings":      kf,
		"crashes":             len(v.Crashes),
		"inconclusive":        v.Inconcl,
		"exhaustive":          false,
	}
	if len(v.Samples) == 0 {
		cov["samples"] = []interface{}{"(no samples recorded)"}
	}
	for k, x := range v.Extra {
		cov[k] = x
	}
	ev := map[string]interface{}{
		"property_id": prop,
		"tier":        tier,
		"seed":        seed,
		"level":       plan.Level,
		"coverage":    cov,
		"assumptions": plan.Assumptions,
		"wall_s":      time.Since(t0).Seconds(),
		"violations":  total,
	}
	b, _ := json.MarshalIndent(ev, "", " ")
	os.MkdirAll(evidPath(), 0o755)
	tmp := evidPath(prop+".json.tmp")
	os.WriteFile(tmp, b, 0o644)
	os.Rename(tmp, evidPath(prop+".json"))
}

func doReplay(path string) int {
	b, err := os.ReadFile(path)
	if err != nil {
		fatalf("%v", err)
	}
	var rec struct {
		Property  string    `json:"property"`
		Tier      string    `json:"tier"`
		Seed      uint64    `json:"seed"`
		Violation Violation `json:"violation"`
		Run       *Run      `json:"run"`
		Also      []*Run    `json:"also_runs"`
	}
	if err := json.Unmarshal(b, &rec); err != nil {
		fatalf("%v", err)
	}
	if rec.Run == nil {
		fatalf("replay file has no run description")
	}
	rc := 0
	type rb struct {
		r *Run
		b int
	}
	todo := []rb{{rec.Run, rec.Violation.Batch}}
	for _, r := range rec.Also {
		todo = append(todo, rb{r, rec.Violation.Batch})
	}
	if rec.Violation.AlsoBatch1 > 0 {
		todo = append(todo, rb{rec.Run, rec.Violation.AlsoBatch1 - 1})
	}
	for _, x := range todo {
		r := x.r
		bin, err := buildWorker(r.Flavor)
		if err != nil {
			fatalf("%v", err)
		}
		args := []string{"-prop", rec.Property, "-tier", rec.Tier, "-seed", strconv.FormatUint(rec.Seed, 10), "-batch", strconv.Itoa(x.b),
			"-nbatch", strconv.Itoa(r.NBatch), "-only", strconv.Itoa(rec.Violation.Case), "-mode", r.Mode, "-v", "-waive", strings.Join(openWaivers, ",")}
		args = append(args, r.Extra...)
		cmd := exec.Command(bin, args...)
		cmd.Env = append(baseEnv(), r.Env...)
		cmd.Stdout = os.Stdout
		cmd.Stderr = os.Stderr
		fmt.Printf("--- replay run=%s batch=%d env=%v: %s %s\n", r.Name, x.b, r.Env, filepath.Base(bin), strings.Join(args, " "))
		if err := cmd.Run(); err != nil {
			fmt.Printf("--- worker exit: %v\n", err)
			rc = 1
		}
	}
	return rc
}
