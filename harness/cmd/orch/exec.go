package main

import (
	"bufio"
	"bytes"
	"context"
	"encoding/binary"
	"encoding/json"
	"fmt"
	"os"
	"os/exec"
	"path/filepath"
	"regexp"
	"strconv"
	"strings"
	"sync"
	"syscall"
	"time"
)

// Run is one configuration of a workload: a build flavour, a process
// environment, a workload mode and a number of batches (child processes).
type Run struct {
	Name     string
	Flavor   string   // plain | race | plain126
	Env      []string // extra environment
	Mode     string
	NBatch   int
	Par      int // max concurrent worker processes (0 = default)
	TimeoutS int // per worker process watchdog
	Prop     string
	Extra    []string // extra worker args
	// MaxAttempts bounds the restarts after crashes (default 8); workloads whose
	// batch is one indivisible history use a small number
	MaxAttempts int
}

type Violation struct {
	Run    string      `json:"run"`
	Batch  int         `json:"batch"`
	Case   int         `json:"case"`
	API    string      `json:"api"`
	Msg    string      `json:"msg"`
	Detail interface{} `json:"detail,omitempty"`
	Also   string      `json:"also_run,omitempty"` // second run of a cross-process comparison
	// AlsoBatch1-1 is a second batch of the same run to replay (C09: the baseline history)
	AlsoBatch1 int `json:"also_batch_plus_1,omitempty"`
}

type BatchResult struct {
	Run        *Run
	Batch      int
	Evals      int64
	Nontrivial int64
	Counters   map[string]int64
	Samples    []interface{}
	Known      map[string]int
	KnownEx    []map[string]interface{}
	Violations []Violation
	VCount     int
	Crashes    []Violation
	Notes      []map[string]interface{}
	Config     map[string]string
	Digests    map[int]string
	Hashes     []uint64
	Completed  bool
	TimedOut   bool
	LogPath    string
	RaceLogs   []string
	Restarts   int
}

var goEnv = []string{"GOFLAGS=-mod=mod", "GOPROXY=off", "GOSUMDB=off", "GOTOOLCHAIN=local", "GOWORK=off"}

func baseEnv() []string {
	env := []string{}
	for _, e := range os.Environ() {
		k := strings.SplitN(e, "=", 2)[0]
		switch k {
		case "GOFLAGS", "GOPROXY", "GOSUMDB", "GOTOOLCHAIN", "GOWORK", "SONIC_MODE", "SONIC_USE_OPTDEC", "SONIC_USE_FASTMAP",
			"SONIC_ENCODER_USE_VM", "SONIC_SYNC_GC", "GOGC", "GODEBUG", "GORACE", "VERIF_POINTS", "GOMAXPROCS", "GOMEMLIMIT":
			continue
		}
		env = append(env, e)
	}
	return append(env, goEnv...)
}

var buildMu sync.Mutex
var built = map[string]string{}

// buildWorker builds the worker from /repo's current working tree.
func buildWorker(flavor string) (string, error) {
	buildMu.Lock()
	defer buildMu.Unlock()
	if p, ok := built[flavor]; ok {
		return p, nil
	}
	out := filepath.Join(workDir, "bin", fmt.Sprintf("worker-%s-%d", flavor, os.Getpid()))
	os.MkdirAll(filepath.Dir(out), 0o755)
	gobin := "go"
	args := []string{"build", "-tags", "verif", "-o", out}
	switch flavor {
	case "plain":
	case "race":
		args = append(args, "-race")
	case "plain126":
		gobin = "go1.26.8"
	default:
		return "", fmt.Errorf("unknown flavour %q", flavor)
	}
	if altRepo != "" {
		// same harness, other copy of the repository: a private go.mod with the replace paths rewritten
		mod, err := os.ReadFile(filepath.Join(verifDir, "harness", "go.mod"))
		if err != nil {
			return "", err
		}
		dir := filepath.Join(workDir, "alt", fmt.Sprint(os.Getpid()))
		os.MkdirAll(dir, 0o755)
		os.WriteFile(filepath.Join(dir, "go.mod"), []byte(strings.ReplaceAll(string(mod), "=> /repo", "=> "+altRepo)), 0o644)
		sum, _ := os.ReadFile(filepath.Join(verifDir, "harness", "go.sum"))
		os.WriteFile(filepath.Join(dir, "go.sum"), sum, 0o644)
		args = append(args, "-modfile="+filepath.Join(dir, "go.mod"))
	}
	args = append(args, "./cmd/worker")
	cmd := exec.Command(gobin, args...)
	cmd.Dir = filepath.Join(verifDir, "harness")
	cmd.Env = baseEnv()
	t0 := time.Now()
	b, err := cmd.CombinedOutput()
	if err != nil {
		return "", fmt.Errorf("build %s failed: %v\n%s", flavor, err, b)
	}
	logf("built worker flavour %s in %.1fs", flavor, time.Since(t0).Seconds())
	built[flavor] = out
	return out, nil
}

func cleanupBuilt() {
	for _, p := range built {
		os.Remove(p)
	}
}

var fatalRe = regexp.MustCompile(`(?m)^(fatal error: .*|panic: .*|unexpected fault address .*|SIGSEGV: .*|SIGBUS: .*|SIGILL: .*|runtime: .*|\[signal .*)$`)
var nativeRe = regexp.MustCompile(`(?m)^(_[a-z_0-9]+)\(\)$`)
var addrRe =regexp.MustCompile(`0x[0-9a-f]+`)
var frameRe = regexp.MustCompile(`(?m)^(github\.com/bytedance/sonic[^\s(]*|main\.[^\s(]*)`)

// classify extracts a crash signature from a worker's stderr.
func classify(stderr string) (sig string, frame string) {
	m := fatalRe.FindAllString(stderr, 4)
	sig = addrRe.ReplaceAllString(strings.Join(m, " | "), "0x?")
	if sig == "" {
		sig = "no fatal line"
	}
	if f := frameRe.FindString(stderr); f != "" {
		frame = f
	}
	if nf := nativeRe.FindStringSubmatch(stderr); nf != nil {
		// innermost frame of a native (SIMD) routine, as the loader's symbol table names it
		frame = "native " + nf[1] + " <- " + frame
	}
	return
}

func tail(s string, n int) string {
	if len(s) <= n {
		return s
	}
	return s[len(s)-n:]
}
func head(s string, n int) string {
	if len(s) <= n {
		return s
	}
	return s[:n]
}

// runBatch runs one batch, resuming after each crashing case.
func runBatch(r *Run, batch int, dir string) *BatchResult {
	res := &BatchResult{Run: r, Batch: batch, Counters: map[string]int64{}, Known: map[string]int{}, Digests: map[int]string{}}
	bin, err := buildWorker(r.Flavor)
	if err != nil {
		res.Notes = append(res.Notes, map[string]interface{}{"msg": "build failed", "detail": err.Error()})
		return res
	}
	logPath := filepath.Join(dir, fmt.Sprintf("%s.b%d.log", r.Name, batch))
	res.LogPath = logPath
	start := 0
	maxAttempts := 8
	if r.MaxAttempts > 0 {
		maxAttempts = r.MaxAttempts
	}
	for attempt := 0; attempt < maxAttempts; attempt++ {
		stderrPath := fmt.Sprintf("%s.err%d", logPath, attempt)
		args := []string{"-prop", r.Prop, "-tier", tier, "-seed", strconv.FormatUint(seed, 10), "-batch", strconv.Itoa(batch),
			"-nbatch", strconv.Itoa(r.NBatch), "-start", strconv.Itoa(start), "-out", logPath, "-mode", r.Mode, "-waive", strings.Join(openWaivers, ",")}
		args = append(args, r.Extra...)
		to := r.TimeoutS
		if to == 0 {
			to = 900
		}
		ctx, cancel := context.WithCancel(context.Background())
		cmd := exec.CommandContext(ctx, bin, args...)
		cmd.Env = append(baseEnv(), r.Env...)
		if r.Flavor == "race" {
			rl := fmt.Sprintf("%s.race%d", logPath, attempt)
			cmd.Env = append(cmd.Env, "GORACE=halt_on_error=0 history_size=3 log_path="+rl)
		}
		ef, _ := os.Create(stderrPath)
		cmd.Stderr = ef
		cmd.Stdout = ef
		cmd.Dir = dir
		timedOut := false
		if err := cmd.Start(); err != nil {
			res.Notes = append(res.Notes, map[string]interface{}{"msg": "start failed", "detail": err.Error()})
			cancel()
			ef.Close()
			return res
		}
		done := make(chan error, 1)
		go func() { done <- cmd.Wait() }()
		var werr error
		select {
		case werr = <-done:
		case <-time.After(time.Duration(to) * time.Second):
			timedOut = true
			cmd.Process.Signal(syscall.SIGQUIT) // goroutine dump into the stderr file
			select {
			case werr = <-done:
			case <-time.After(20 * time.Second):
				cmd.Process.Kill()
				werr = <-done
			}
		}
		cancel()
		ef.Close()
		last, completed := parseLog(logPath, res)
		if completed && werr == nil {
			res.Completed = true
			os.Remove(stderrPath)
			break
		}
		if completed && r.Flavor == "race" && werr != nil && strings.Contains(werr.Error(), "exit status 66") {
			// the race detector's exit code after a run that reported races: the batch itself
			// ran to its end, the reports are read from the GORACE log below
			res.Completed = true
			break
		}
		eb, _ := os.ReadFile(stderrPath)
		stderr := string(eb)
		if timedOut {
			res.TimedOut = true
			sig, frame := classify(stderr)
			res.Crashes = append(res.Crashes, Violation{Run: r.Name, Batch: batch, Case: last, API: "process", Msg: "watchdog expired after " + strconv.Itoa(to) + "s: " + sig + " @ " + frame, Detail: head(stderr, 6000)})
			start = last + 1
			res.Restarts++
			continue
		}
		sig, frame := classify(stderr)
		cur := ""
		if cb, err := os.ReadFile(logPath + ".cur"); err == nil && len(cb) > 0 {
			cur = "RUNNING: " + string(cb) + "\n"
		}
		res.Crashes = append(res.Crashes, Violation{Run: r.Name, Batch: batch, Case: last, API: "process",
			Msg: fmt.Sprintf("worker died (%v): %s @ %s", werr, sig, frame), Detail: cur + head(stderr, 6000)})
		if lf, err := os.OpenFile(logPath, os.O_APPEND|os.O_WRONLY, 0o644); err == nil {
			// triage aid: the crash as a line of the batch log (ignored by parseLog)
			xb, _ := json.Marshal(map[string]interface{}{"case": last, "sig": sig, "frame": frame, "running": strings.TrimSpace(cur)})
			lf.WriteString("X " + string(xb) + "\n")
			lf.Close()
		}
		res.Restarts++
		if last < start && attempt > 0 {
			// died before reaching any new case: give up on this batch
			break
		}
		start = last + 1
	}
	// race logs
	if r.Flavor == "race" {
		m, _ := filepath.Glob(logPath + ".race*")
		res.RaceLogs = m
	}
	// hashes
	if hb, err := os.ReadFile(logPath + ".hash"); err == nil {
		for i := 0; i+8 <= len(hb); i += 8 {
			res.Hashes = append(res.Hashes, binary.LittleEndian.Uint64(hb[i:]))
		}
	}
	return res
}

// parseLog re-reads the whole log (cheap) and fills res. Returns the last
// announced case and whether the batch ended cleanly.
func parseLog(path string, res *BatchResult) (last int, completed bool) {
	last = -1
	f, err := os.Open(path)
	if err != nil {
		return
	}
	defer f.Close()
	res.Violations = res.Violations[:0]
	res.KnownEx = res.KnownEx[:0]
	notes := res.Notes[:0]
	for _, n := range res.Notes {
		if _, ok := n["orch"]; ok {
			notes = append(notes, n)
		}
	}
	res.Notes = notes
	// statistics of segments that ended in a crash are lost (S is written at the
	// end); count announced cases instead.
	announced := int64(0)
	var stats *struct {
		Evals      int64            `json:"evals"`
		Nontrivial int64            `json:"nontrivial"`
		Violations int              `json:"violations"`
		Counters   map[string]int64 `json:"counters"`
		Samples    []interface{}    `json:"samples"`
		Known      map[string]int   `json:"known"`
	}
	rd := bufio.NewReaderSize(f, 1<<20)
	for {
		line, err := rd.ReadBytes('\n')
		if len(line) > 1 {
			line = bytes.TrimRight(line, "\n")
			switch line[0] {
			case 'C':
				if n, e := strconv.Atoi(string(line[2:])); e == nil {
					last = n
					announced++
				}
			case 'V':
				var v Violation
				if json.Unmarshal(line[2:], &v) == nil {
					v.Run = res.Run.Name
					v.Batch = res.Batch
					res.Violations = append(res.Violations, v)
				}
			case 'K':
				var m map[string]interface{}
				if json.Unmarshal(line[2:], &m) == nil {
					res.KnownEx = append(res.KnownEx, m)
				}
			case 'N':
				var m map[string]interface{}
				if json.Unmarshal(line[2:], &m) == nil {
					if m["msg"] == "config" {
						if d, ok := m["detail"].(map[string]interface{}); ok {
							res.Config = map[string]string{}
							for k, v := range d {
								res.Config[k] = fmt.Sprint(v)
							}
						}
					} else {
						res.Notes = append(res.Notes, m)
					}
				}
			case 'D':
				parts := strings.SplitN(string(line[2:]), " ", 2)
				if len(parts) == 2 {
					if n, e := strconv.Atoi(parts[0]); e == nil {
						res.Digests[n] = parts[1]
					}
				}
			case 'S':
				stats = nil
				json.Unmarshal(line[2:], &stats)
			case 'E':
				completed = true
			}
		}
		if err != nil {
			break
		}
	}
	res.Evals = announced
	if stats != nil {
		res.Nontrivial = stats.Nontrivial
		res.Counters = stats.Counters
		res.Samples = stats.Samples
		res.Known = stats.Known
		res.VCount = stats.Violations
	}
	if res.VCount < len(res.Violations) {
		res.VCount = len(res.Violations)
	}
	return
}

// runAll executes all batches of all runs with bounded parallelism.
func runAll(runs []*Run, dir string) map[string][]*BatchResult {
	type job struct {
		r *Run
		b int
	}
	out := map[string][]*BatchResult{}
	var mu sync.Mutex
	for _, r := range runs {
		// build up front so that build time is not charged to watchdogs
		if _, err := buildWorker(r.Flavor); err != nil {
			fatalf("%v", err)
		}
	}
	// group runs by Par: simplest is a global semaphore weighted by 16/Par
	sem := make(chan struct{}, maxPar)
	var wg sync.WaitGroup
	var acqMu sync.Mutex
	for _, r := range runs {
		out[r.Name] = make([]*BatchResult, r.NBatch)
		weight := 1
		if r.Par > 0 && r.Par < maxPar {
			weight = maxPar / r.Par
		}
		for b := 0; b < r.NBatch; b++ {
			wg.Add(1)
			go func(r *Run, b, weight int) {
				defer wg.Done()
				acqMu.Lock()
				for k := 0; k < weight; k++ {
					sem <- struct{}{}
				}
				acqMu.Unlock()
				tb := time.Now()
				res := runBatch(r, b, dir)
				if d := time.Since(tb).Seconds(); d > 30 {
					logf("run %s batch %d took %.0fs (restarts %d)", r.Name, b, d, res.Restarts)
				}
				for k := 0; k < weight; k++ {
					<-sem
				}
				mu.Lock()
				out[r.Name][b] = res
				mu.Unlock()
			}(r, b, weight)
		}
	}
	wg.Wait()
	return out
}
