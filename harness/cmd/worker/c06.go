package main

import (
	"bytes"
	"encoding/json"
	"fmt"
	"reflect"
	"strings"
	"sync"

	"github.com/bytedance/sonic"
	"github.com/bytedance/sonic/ast"
	"github.com/bytedance/sonic/encoder"
	"github.com/bytedance/sonic/option"
	sutf8 "github.com/bytedance/sonic/utf8"

	"verifharness/gen"
	"verifharness/place"
)

// C06: returned data is caller-owned; buffers and inputs are never aliased or
// overrun. Three monitors:
//
//  1. ledger: every byte slice / string a sonic call returns is recorded with a
//     checksum taken at return time; G goroutines keep encoding, decoding and
//     marshaling nodes (output sizes on both sides of the initial buffer size and
//     of option.LimitBufferSize, which decides whether a buffer goes back to a
//     pool) and re-verify the checksums of everything they still hold. A changed
//     checksum means a later call wrote into memory that was already handed out.
//     The same values are encoded again and again: the bytes must also be
//     independent of the pool state.
//  2. caller buffers: EncodeInto / HTMLEscape / CorrectWith get a destination whose
//     capacity ends exactly at an inaccessible page, for every capacity around the
//     needed size, with dirty prior contents: a write outside the spare capacity
//     faults; result == prefix + Encode(v) for every capacity.
//  3. inputs: after Unmarshal([]byte) / Get([]byte) / CopyString decoding /
//     CopyReturn searching, the caller overwrites its input; the decoded values and
//     located nodes must not change.

func init() {
	workloads["C06"] = runC06
}

type c06Entry struct {
	b      []byte
	s      string
	isStr  bool
	sum    uint64
	origin string
	round  int
}

type c06Ledger struct {
	entries []c06Entry
	bytes   int
}

func fnv(b []byte) uint64 {
	h := uint64(14695981039346656037)
	for _, x := range b {
		h ^= uint64(x)
		h *= 1099511628211
	}
	return h
}
func fnvs(s string) uint64 {
	h := uint64(14695981039346656037)
	for i := 0; i < len(s); i++ {
		h ^= uint64(s[i])
		h *= 1099511628211
	}
	return h
}

func (l *c06Ledger) addBytes(b []byte, origin string, round int) {
	if len(b) == 0 {
		return
	}
	l.entries = append(l.entries, c06Entry{b: b, sum: fnv(b), origin: origin, round: round})
	l.bytes += len(b)
}

func (l *c06Ledger) addString(s string, origin string, round int) {
	if len(s) == 0 {
		return
	}
	l.entries = append(l.entries, c06Entry{s: s, isStr: true, sum: fnvs(s), origin: origin, round: round})
	l.bytes += len(s)
}

// verify re-reads everything held; evicts the oldest entries beyond the budget.
func (l *c06Ledger) verify(c *Ctx, i int, who string, budget int) int {
	n := 0
	for k := range l.entries {
		e := &l.entries[k]
		var now uint64
		if e.isStr {
			now = fnvs(e.s)
		} else {
			now = fnv(e.b)
		}
		n++
		if now != e.sum {
			cur := e.s
			if !e.isStr {
				cur = string(e.b)
			}
			c.Violate(i, e.origin, "bytes that were already returned changed after later calls", map[string]interface{}{"returned_in_round": e.round, "seen_changed_in_round": i, "goroutine": who, "length": len(cur), "now": q(cur)})
			e.sum = now
		}
	}
	for l.bytes > budget && len(l.entries) > 0 {
		e := l.entries[0]
		l.bytes -= len(e.b) + len(e.s)
		l.entries = l.entries[1:]
	}
	return n
}

// sized values: output sizes around the interesting limits
type c06Val struct {
	v     interface{}
	first map[string]uint64 // api -> checksum of the first output
	desc  string
}

func c06SizedValue(r *gen.Rng, limit int) (interface{}, string) {
	targets := []int{0, 1, 30, 200, 1000, 4096 - 40, 4096, 4096 + 40, 8192, 16384 + 3, limit - 4096, limit - 60, limit - 1, limit, limit + 1, limit + 60, limit + 4096, 2*limit + 7}
	n := targets[r.Intn(len(targets))] + r.Range(-3, 3)
	if n < 0 {
		n = 0
	}
	unit := []string{"a", "ab\"c", "é", "<x>&", "\n", "\\", "0123456789abcdef"}[r.Intn(7)]
	switch r.Intn(6) {
	case 0:
		return strings.Repeat(unit, n/len(unit)+1)[:n], fmt.Sprintf("string(%d of %q)", n, unit)
	case 1:
		var l []string
		for tot := 0; tot < n; tot += 12 {
			l = append(l, strings.Repeat(unit, 10/len(unit)+1)[:10])
		}
		return l, fmt.Sprintf("[]string(~%d)", n)
	case 2:
		m := map[string]interface{}{}
		for tot, k := 0, 0; tot < n; tot, k = tot+24, k+1 {
			m[fmt.Sprintf("key%06d", k)] = []interface{}{k, unit, nil, true}
		}
		return m, fmt.Sprintf("map(~%d)", n)
	case 3:
		b := make([]byte, n*3/4)
		for k := range b {
			b[k] = byte(r.Intn(256))
		}
		return b, fmt.Sprintf("[]byte(%d)", len(b))
	case 4:
		type rec struct {
			ID   int               `json:"id"`
			Name string            `json:"name"`
			Tags []string          `json:"tags"`
			Raw  json.RawMessage   `json:"raw"`
			M    map[string]string `json:"m"`
			F    float64           `json:"f"`
		}
		var l []rec
		for tot, k := 0, 0; tot < n; tot, k = tot+90, k+1 {
			l = append(l, rec{k, unit + "name", []string{"x", unit}, json.RawMessage(`{"a": [1, 2 ]}`), map[string]string{"k": unit}, float64(k) / 7})
		}
		return l, fmt.Sprintf("[]rec(~%d)", n)
	default:
		return json.RawMessage(`[` + strings.Repeat(`1,`, n/2) + `2]`), fmt.Sprintf("RawMessage(~%d)", n)
	}
}

var c06EncAPIs = []string{"Marshal", "MarshalString", "ConfigStd.Marshal", "MarshalIndent", "encoder.Encode(sorted)", "EncodeInto", "EncodeIndented", "StreamEncoder", "ConfigFastest.Marshal"}

// c06Encode runs one encoding API; returns the produced bytes (as returned, not copied).
func c06Encode(api string, v interface{}, r *gen.Rng) ([]byte, string, error) {
	switch api {
	case "Marshal":
		o, err := sonic.ConfigDefault.Marshal(v)
		return o, "", err
	case "MarshalString":
		s, err := sonic.MarshalString(v)
		return nil, s, err
	case "ConfigStd.Marshal":
		o, err := sonic.ConfigStd.Marshal(v)
		return o, "", err
	case "ConfigFastest.Marshal":
		o, err := sonic.ConfigFastest.Marshal(v)
		return o, "", err
	case "MarshalIndent":
		o, err := sonic.ConfigStd.MarshalIndent(v, "", " ")
		return o, "", err
	case "encoder.Encode(sorted)":
		o, err := encoder.Encode(v, encoder.SortMapKeys|encoder.EscapeHTML)
		return o, "", err
	case "EncodeInto":
		buf := make([]byte, 0, []int{0, 1, 100, 4096, 5000, 70000}[r.Intn(6)])
		err := encoder.EncodeInto(&buf, v, encoder.SortMapKeys)
		return buf, "", err
	case "EncodeIndented":
		o, err := encoder.EncodeIndented(v, ">", "\t", encoder.SortMapKeys)
		return o, "", err
	default:
		var w bytes.Buffer
		err := sonic.ConfigStd.NewEncoder(&w).Encode(v)
		return w.Bytes(), "", err
	}
}

var c06SortedAPI = map[string]bool{"ConfigStd.Marshal": true, "MarshalIndent": true, "encoder.Encode(sorted)": true, "EncodeInto": true, "EncodeIndented": true, "StreamEncoder": true}

func hasMapKind(v interface{}) bool {
	switch v.(type) {
	case map[string]interface{}:
		return true
	}
	return false
}

// c06Worker: one goroutine's share of a round.
func c06Worker(c *Ctx, i int, g int, r *gen.Rng, l *c06Ledger, vals []*c06Val, docs []string, ops int, limit int) {
	who := fmt.Sprintf("g%d", g)
	for op := 0; op < ops; op++ {
		switch r.Intn(10) {
		case 0, 1, 2, 3, 4: // encode a pooled value again, or a new one
			var cv *c06Val
			if r.Bool() {
				cv = vals[r.Intn(len(vals))]
			} else {
				v, d := c06SizedValue(r, limit)
				cv = &c06Val{v: v, first: map[string]uint64{}, desc: d}
				vals[r.Intn(len(vals))] = cv
			}
			api := c06EncAPIs[r.Intn(len(c06EncAPIs))]
			b, s, err := c06Encode(api, cv.v, r)
			if err != nil {
				c.Violate(i, api, "error encoding a plain value: "+errStr(err), cv.desc)
				continue
			}
			var sum uint64
			if b != nil {
				l.addBytes(b, api+" of "+cv.desc, i)
				sum = fnv(b)
			} else {
				l.addString(s, api+" of "+cv.desc, i)
				sum = fnvs(s)
			}
			if c06SortedAPI[api] || !hasMapKind(cv.v) {
				if f, ok := cv.first[api]; ok && f != sum {
					c.Violate(i, api, "the same value encodes to different bytes at different times (pool state / buffer history)", map[string]interface{}{"value": cv.desc, "goroutine": who})
				} else if !ok {
					cv.first[api] = sum
				}
			}
			c.Count("encode_calls", 1)
		case 5: // decode: churns the decoder pools, decoded strings go to the ledger
			doc := docs[r.Intn(len(docs))]
			var v interface{}
			if err := sonic.Unmarshal([]byte(doc), &v); err == nil {
				if m, ok := v.(map[string]interface{}); ok {
					for k, x := range m {
						l.addString(k, "map key decoded by Unmarshal", i)
						if s, ok := x.(string); ok {
							l.addString(s, "string decoded by Unmarshal", i)
						}
					}
				}
			}
			c.Count("decode_calls", 1)
		case 6, 7: // ast: MarshalJSON / Raw / String of nodes
			doc := docs[r.Intn(len(docs))]
			root, err := sonic.Get([]byte(doc))
			if err != nil {
				continue
			}
			if r.Bool() {
				root.LoadAll()
			}
			if js, err := root.MarshalJSON(); err == nil {
				l.addBytes(js, "ast.Node.MarshalJSON", i)
			}
			if raw, err := root.Raw(); err == nil {
				l.addString(raw, "ast.Node.Raw", i)
			}
			n := root.Index(r.Intn(3))
			if n != nil && n.Exists() {
				if raw, err := n.Raw(); err == nil {
					l.addString(raw, "ast.Node.Raw(child)", i)
				}
				if js, err := n.MarshalJSON(); err == nil {
					l.addBytes(js, "ast.Node.MarshalJSON(child)", i)
				}
				if s, err := n.String(); err == nil {
					l.addString(s, "ast.Node.String", i)
				}
			}
			c.Count("ast_calls", 1)
		case 8: // string routines returning fresh memory
			s := docs[r.Intn(len(docs))]
			l.addString(encoder.Quote(s), "encoder.Quote", i)
			l.addBytes(encoder.HTMLEscape(nil, []byte(s)), "encoder.HTMLEscape", i)
			c.Count("string_calls", 1)
		default:
			c.Count("ledger_reads", int64(l.verify(c, i, who, c.N(12, 48)<<20)))
		}
	}
	c.Count("ledger_reads", int64(l.verify(c, i, who, c.N(12, 48)<<20)))
}

// ---------------------------------------------------------------------------

// c06Buffers: destination buffers whose capacity ends at an inaccessible page.
func c06Buffers(c *Ctx, i int, arena *place.Arena, r *gen.Rng) {
	var v interface{}
	var desc string
	if r.Bool() {
		t := r.Type(&c04PureTypes, 0)
		vo := gen.ValOpts{MaxLen: 4, NilChance: 4, BadUTF8: r.Chance(1, 4)}
		rv := r.Value(t, &vo, 0)
		v, desc = rv.Interface(), trunc(gen.Describe(t), 120)
	} else {
		v, desc = c06SizedValue(r, 9000)
	}
	opts := encoder.SortMapKeys
	if r.Bool() {
		opts |= encoder.EscapeHTML
	}
	if r.Chance(1, 4) {
		opts |= encoder.ValidateString
	}
	exp, eerr := encoder.Encode(v, opts)
	caps := map[int]bool{}
	for k := 0; k <= len(exp)+4 && k <= 72; k++ {
		caps[k] = true
	}
	for d := -3; d <= 3; d++ {
		for _, base := range []int{len(exp), len(exp) / 2, len(exp) - 32, len(exp) - 64, 4096, 2 * len(exp)} {
			if base+d >= 0 {
				caps[base+d] = true
			}
		}
	}
	for cp := range caps {
		for _, pfx := range []string{"", "PFX"} {
			buf := arena.BufferBeforeGuard(len(pfx), len(pfx)+cp, 0xEE)
			copy(buf, pfx)
			orig := buf
			c.Cur("case %d EncodeInto spare capacity %d after a %d-byte prefix, capacity ends at a guard page; value %s expected %d bytes", i, cp, len(pfx), desc, len(exp))
			var err error
			if c.Guard(i, "EncodeInto", func() { err = encoder.EncodeInto(&buf, v, opts) }) {
				continue
			}
			c.Count("encodeinto_geometries", 1)
			if (err == nil) != (eerr == nil) {
				c.Violate(i, "encoder.EncodeInto", "error-or-not depends on the buffer", map[string]interface{}{"value": desc, "spare": cp, "err": errStr(err), "encode_err": errStr(eerr)})
				continue
			}
			if err == nil && string(buf) != pfx+string(exp) {
				x, y := diffAt(string(buf), pfx+string(exp))
				c.Violate(i, "encoder.EncodeInto", "result is not prefix + Encode(v): it depends on the capacity / prior contents of the buffer", map[string]interface{}{"value": desc, "spare": cp, "prefix": pfx, "got": x, "want": y})
			}
			if string(orig[:len(pfx)]) != pfx {
				c.Violate(i, "encoder.EncodeInto", "bytes before the spare capacity were overwritten", map[string]interface{}{"value": desc, "spare": cp})
			}
		}
		arena.Release()
	}
	// HTMLEscape / CorrectWith append to dst
	src := []byte(r.RawString(200))
	wantH := encoder.HTMLEscape(nil, src)
	wantC := sutf8.CorrectWith(nil, src, "�")
	for cp := 0; cp <= len(wantH)+2 && cp < 300; cp += 1 + cp/24 {
		dst := arena.BufferBeforeGuard(2, 2+cp, 0xEE)
		copy(dst, "ab")
		c.Cur("case %d HTMLEscape into spare capacity %d ending at a guard page; src %q", i, cp, src)
		got := encoder.HTMLEscape(dst, src)
		if string(got) != "ab"+string(wantH) {
			c.Violate(i, "encoder.HTMLEscape", "result depends on the capacity of dst", map[string]interface{}{"spare": cp, "src": q(string(src)), "got": q(string(got))})
		}
		dst2 := arena.BufferBeforeGuard(2, 2+cp, 0xEE)
		copy(dst2, "ab")
		c.Cur("case %d CorrectWith into spare capacity %d ending at a guard page; src %q", i, cp, src)
		got2 := sutf8.CorrectWith(dst2, src, "�")
		if string(got2) != "ab"+string(wantC) {
			c.Violate(i, "utf8.CorrectWith", "result depends on the capacity of dst", map[string]interface{}{"spare": cp, "src": q(string(src)), "got": q(string(got2))})
		}
		arena.Release()
		c.Count("append_geometries", 2)
	}
}

// ---------------------------------------------------------------------------

type c06Dst struct {
	A   interface{}            `json:"a"`
	S   string                 `json:"b"`
	L   []string               `json:"l"`
	M   map[string]string      `json:"m"`
	N   json.Number            `json:"n"`
	R   json.RawMessage        `json:"r"`
	X   map[string]interface{} `json:"x"`
	B   []byte                 `json:"bin"`
	K   map[string]json.Number `json:"k"`
	Any []interface{}          `json:"any"`
}

// c06Inputs: the caller overwrites its input after the call.
func c06Inputs(c *Ctx, i int, r *gen.Rng) {
	str := func() string { return r.ValidString(20) }
	num := func() string { return r.SimpleNumber() }
	doc := `{"a":[` + str() + `,` + num() + `,{"q":` + str() + `}],"b":` + str() + `,"l":[` + str() + `,` + str() + `],"m":{` + str() + `:` + str() + `},"n":` + num() +
		`,"r":{"z":[` + num() + `,` + str() + `]},"x":{` + str() + `:` + num() + `,"s":` + str() + `},"bin":"QUJDRA==","k":{"n1":` + num() + `},"any":[` + num() + `,` + num() + `,` + str() + `]}`
	if r.Chance(1, 3) {
		doc = num()
	} else if r.Chance(1, 3) {
		doc = `[` + num() + `,` + str() + `,` + num() + `]`
	}
	scribble := func(b []byte) {
		for k := range b {
			b[k] = "X9\"\\ "[k%5]
		}
	}
	cfgs := []struct {
		name string
		cfg  sonic.Config
	}{
		{"default", sonic.Config{}}, {"UseNumber", sonic.Config{UseNumber: true}}, {"CopyString", sonic.Config{CopyString: true}},
		{"CopyString+UseNumber", sonic.Config{CopyString: true, UseNumber: true}}, {"Std", sonic.Config{EscapeHTML: true, SortMapKeys: true, CompactMarshaler: true, CopyString: true, ValidateString: true}},
		{"UseInt64", sonic.Config{UseInt64: true}}, {"NoValidateJSONSkip+CopyString", sonic.Config{NoValidateJSONSkip: true, CopyString: true}},
	}
	for _, cf := range cfgs {
		api := cf.cfg.Froze()
		for dk := 0; dk < 2; dk++ {
			newDst := func() interface{} {
				if dk == 0 {
					return new(interface{})
				}
				return new(c06Dst)
			}
			// (a) Unmarshal([]byte): never aliases, whatever the configuration
			data := []byte(doc)
			d := newDst()
			if err := api.Unmarshal(data, d); err == nil {
				before := gen.Dump(reflect.ValueOf(d).Elem())
				scribble(data)
				if after := gen.Dump(reflect.ValueOf(d).Elem()); after != before {
					x, y := diffAt(after, before)
					c.Violate(i, "Unmarshal([]byte)/"+cf.name, "decoded value changed when the caller overwrote its input buffer", map[string]interface{}{"doc": q(doc), "after": x, "before": y})
				}
				c.Count("input_overwrites", 1)
			}
			if dk == 0 {
				// (a') values that are references by design (NoCopyRawMessage) and the source kept by an error:
				// with Unmarshal([]byte) they must refer to sonic's own copy of the input
				data := []byte(doc)
				var nc struct {
					R sonic.NoCopyRawMessage `json:"r"`
					A sonic.NoCopyRawMessage `json:"a"`
				}
				if err := api.Unmarshal(data, &nc); err == nil {
					before := string(nc.R) + "|" + string(nc.A)
					scribble(data)
					if after := string(nc.R) + "|" + string(nc.A); after != before {
						c.Violate(i, "Unmarshal([]byte)/"+cf.name, "a NoCopyRawMessage decoded from a []byte input refers to the caller's buffer", map[string]interface{}{"doc": q(doc), "after": q(after), "before": q(before)})
					}
					c.Count("input_overwrites", 1)
				}
				data = []byte(doc[:len(doc)*2/3])
				var v interface{}
				if err := api.Unmarshal(data, &v); err != nil {
					before := err.Error()
					scribble(data)
					if after := err.Error(); after != before {
						c.Violate(i, "Unmarshal([]byte)/"+cf.name, "the error value changed when the caller overwrote its input buffer", map[string]interface{}{"doc": q(string(doc[:len(doc)*2/3])), "after": q(after), "before": q(before)})
					}
					c.Count("input_overwrites", 1)
				}
			}
			// (b) UnmarshalFromString with CopyString: the string may be backed by memory the caller reuses
			if cf.cfg.CopyString {
				data := []byte(doc)
				d := newDst()
				if err := api.UnmarshalFromString(place.Str(data), d); err == nil {
					before := gen.Dump(reflect.ValueOf(d).Elem())
					scribble(data)
					if after := gen.Dump(reflect.ValueOf(d).Elem()); after != before {
						x, y := diffAt(after, before)
						c.Violate(i, "UnmarshalFromString/"+cf.name, "decoded value aliases the input although CopyString is set", map[string]interface{}{"doc": q(doc), "after": x, "before": y})
					}
					c.Count("input_overwrites", 1)
				}
			}
		}
	}
	// (c) Get([]byte) and the copying searchers
	paths := [][]interface{}{{}, {"a"}, {"a", 0}, {"b"}, {"x"}, {"r", "z", 1}, {0}, {1}}
	for _, path := range paths {
		for variant := 0; variant < 4; variant++ {
			data := []byte(doc)
			var n ast.Node
			var err error
			name := ""
			switch variant {
			case 0:
				name = "sonic.Get([]byte)"
				n, err = sonic.Get(data, path...)
			case 1:
				name = "GetCopyFromString"
				n, err = sonic.GetCopyFromString(place.Str(data), path...)
			case 2:
				name = "GetWithOptions(CopyReturn)"
				n, err = sonic.GetWithOptions(data, ast.SearchOptions{CopyReturn: true}, path...)
			default:
				name = "GetWithOptions(CopyReturn,ConcurrentRead,ValidateJSON)"
				n, err = sonic.GetWithOptions(data, ast.SearchOptions{CopyReturn: true, ConcurrentRead: true, ValidateJSON: true}, path...)
			}
			if err != nil {
				continue
			}
			rawBefore, _ := n.Raw()
			rawCopy := string([]byte(rawBefore))
			scribble(data)
			rawAfter, _ := n.Raw()
			var want, got interface{}
			json.Unmarshal([]byte(rawCopy), &want)
			got, gerr := n.Interface()
			if rawAfter != rawCopy || gerr != nil || gen.Dump(reflect.ValueOf(&got).Elem()) != gen.Dump(reflect.ValueOf(&want).Elem()) {
				if strings.Contains(rawCopy, "-0") {
					continue // the sign of zero is finding B24's business
				}
				c.Violate(i, name, "the located node changed when the caller overwrote its input buffer", map[string]interface{}{"doc": q(doc), "path": fmt.Sprint(path), "raw_before": q(rawCopy), "raw_after": q(rawAfter), "interface_err": errStr(gerr)})
			}
			c.Count("input_overwrites", 1)
		}
	}
}

func runC06(c *Ctx) {
	limit := int(option.LimitBufferSize)
	if strings.Contains(c.Mode, "smallpool") {
		// the documented knob, lowered so that both sides of the pool limit are cheap to reach
		option.LimitBufferSize = 64 * 1024
		limit = 64 * 1024
	}
	race := strings.Contains(c.Mode, "race")
	if race {
		// the race-detector build is 10-20x slower on byte loops: smaller outputs, same pool boundary logic
		option.LimitBufferSize = 12 * 1024
		limit = 12 * 1024
	}
	const G = 4
	arena := place.NewArena()
	ledgers := make([]*c06Ledger, G)
	valss := make([][]*c06Val, G)
	rs := make([]*gen.Rng, G)
	for g := range ledgers {
		ledgers[g] = &c06Ledger{}
		rs[g] = c.Rng(1<<28 + g)
		valss[g] = make([]*c06Val, 12)
		for k := range valss[g] {
			v, d := c06SizedValue(rs[g], limit)
			valss[g][k] = &c06Val{v: v, first: map[string]uint64{}, desc: d}
		}
	}
	docOpts := gen.DefaultDoc
	N := c.N(150, 12000)
	if race {
		N = c.N(48, 3000)
	}
	for i := 0; i < N; i++ {
		if c.Stop(i) {
			return
		}
		if !c.Begin(i) {
			continue
		}
		r := c.Rng(i)
		kind := i % 3
		if race && i%6 >= 2 {
			kind = 0 // the race detector earns its keep in the concurrent rounds
		}
		switch kind {
		case 0:
			// concurrent round: ledgers persist across rounds
			docs := make([]string, 8)
			for k := range docs {
				docs[k] = r.Doc(&docOpts)
			}
			docs[0] = `{"a":"` + strings.Repeat("x", r.Range(0, 9000)) + `","b":[1,2,3]}`
			var wg sync.WaitGroup
			for g := 0; g < G; g++ {
				wg.Add(1)
				go func(g int) {
					defer wg.Done()
					c.Guard(i, "concurrent round", func() { c06Worker(c, i, g, rs[g], ledgers[g], valss[g], docs, c.N(40, 80), limit) })
				}(g)
			}
			wg.Wait()
			c.Count("rounds", 1)
		case 1:
			c06Buffers(c, i, arena, r)
		default:
			c06Inputs(c, i, r)
		}
		c.Distinct(gen.HashString(fmt.Sprint("C06", c.Batch, i)), true)
	}
}
