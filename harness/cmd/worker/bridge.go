package main

import "github.com/bytedance/sonic/verifbridge"

func bridgeConfig() map[string]string { return verifbridge.Config() }
