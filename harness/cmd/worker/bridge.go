package main

import "github.com/bytedance/sonic/verifbridge"

func bridgeConfig() map[string]string { return verifbridge.Config() }

var (
	isOptdec = verifbridge.Config()["optdec"] == "1"
	isVM     = verifbridge.Config()["vm"] == "1"
	isSSE    = verifbridge.Config()["native"] == "sse"
)
