package main

import (
	"github.com/bytedance/sonic/verifbridge"

	"verifharness/gen"
)

func bridgeConfig() map[string]string { return verifbridge.Config() }

var (
	isOptdec = verifbridge.Config()["optdec"] == "1"
	isVM     = verifbridge.Config()["vm"] == "1"
	isSSE    = verifbridge.Config()["native"] == "sse"
)

// hookSchedule configures the library's schedule points (verifhook, build tag
// verif) for one case. The choice comes from a generator that is independent of
// the case's own, so the case contents are what they were without the hooks.
// The returned function switches the actions off again and adds the arrivals
// seen meanwhile to the evidence counters (arrivals are not counted in
// race-detector builds, see internal/verifhook/counting_race.go).
func hookSchedule(c *Ctx, i int, names []string) func() {
	return hookScheduleOpt(c, i, names, true)
}

// hookScheduleOpt with act=false only counts arrivals (no delays are injected).
func hookScheduleOpt(c *Ctx, i int, names []string, act bool) func() {
	hr := gen.New(gen.Mix(c.Seed, gen.HashString("hooks"), gen.HashString(c.Prop), uint64(c.Batch)), uint64(i)+1)
	before := verifbridge.HookCounts()
	sig := "none"
	k := hr.Intn(5)
	if !act {
		k = 0
	}
	switch k {
	case 0, 1:
	case 2:
		sig = "yield_everywhere"
		for _, n := range names {
			verifbridge.HookSet(n, "yield", 0, 1)
		}
	case 3:
		n := names[hr.Intn(len(names))]
		sig = "sleep_at_" + n
		verifbridge.HookSet(n, "sleep", uint32(hr.Range(5, 300)), 1)
	case 4:
		sig = "short_sleep_everywhere_every_2nd"
		for _, n := range names {
			verifbridge.HookSet(n, "sleep", uint32(hr.Range(5, 60)), 2)
		}
	}
	c.Count("hook_schedule_"+sig, 1)
	return func() {
		verifbridge.HookReset()
		after := verifbridge.HookCounts()
		for _, n := range names {
			if d := after[n] - before[n]; d > 0 {
				c.Count("hook_arrivals_"+n, int64(d))
			}
		}
	}
}

var pcacheHooks = []string{"pcache_double_check_hit", "pcache_before_compute", "pcache_before_publish"}
var astHooks = []string{"ast_parse_raw_lost", "ast_before_assign", "ast_assign_mid", "ast_raw_locked"}
