package main

import (
	"bytes"
	"encoding/json"
	"fmt"
	"reflect"
	"regexp"
	"strconv"
	"strings"
	"unicode/utf8"

	"github.com/bytedance/sonic"

	"verifharness/cat"
	"verifharness/gen"
	"verifharness/ref"
)

func init() {
	workloads["C01"] = runC01
	witnesses["B12"] = func() (bool, string) {
		var s, j struct{ R json.RawMessage }
		doc := "{\"R\":\"{f\xff2\"}"
		e1 := sonic.ConfigStd.UnmarshalFromString(doc, &s)
		e2 := json.Unmarshal([]byte(doc), &j)
		return e1 == nil && e2 == nil && string(s.R) != string(j.R), fmt.Sprintf("RawMessage under ConfigStd: sonic %q, encoding/json %q", s.R, j.R)
	}
	witnesses["B13"] = func() (bool, string) {
		s := map[int16]map[int8]int{0: {-128: 7}}
		j := map[int16]map[int8]int{0: {-128: 7}}
		e1 := sonic.UnmarshalString(`{"0":{}}`, &s)
		e2 := json.Unmarshal([]byte(`{"0":{}}`), &j)
		s2 := map[string]int{"k": 5}
		j2 := map[string]int{"k": 5}
		sonic.UnmarshalString(`{"k":null}`, &s2)
		json.Unmarshal([]byte(`{"k":null}`), &j2)
		return e1 == nil && e2 == nil && len(s[0]) == 1 && len(j[0]) == 0, fmt.Sprintf("pre-populated map + {\"0\":{}}: sonic %v, encoding/json %v; {\"k\":null}: sonic %v, encoding/json %v", s, j, s2, j2)
	}
	witnesses["B29"] = func() (bool, string) {
		var s, j []byte
		e1 := sonic.UnmarshalString(`"AB40IR="`, &s)
		e2 := json.Unmarshal([]byte(`"AB40IR="`), &j)
		return e1 == nil && e2 != nil, fmt.Sprintf("[]byte <- \"AB40IR=\": sonic %x err=%v, encoding/json err=%v", s, errStr(e1), errStr(e2))
	}
	witnesses["B31"] = func() (bool, string) {
		var s, j map[int]int
		e1 := sonic.UnmarshalString(`{"10":1,"03":2}`, &s)
		e2 := json.Unmarshal([]byte(`{"10":1,"03":2}`), &j)
		return e1 != nil && e2 == nil, fmt.Sprintf("map[int]int <- {\"1\\u0030\":1,\"03\":2}: sonic err=%v, encoding/json %v", errStr(e1), j)
	}
	witnesses["B33"] = func() (bool, string) {
		var s, j struct {
			N cat.JSONNum `json:"n,string"`
		}
		e1 := sonic.UnmarshalString(`{"n":null}`, &s)
		e2 := json.Unmarshal([]byte(`{"n":null}`), &j)
		return e1 == nil && e2 != nil, fmt.Sprintf("`,string` Unmarshaler field <- null: sonic err=%v, encoding/json err=%v", errStr(e1), errStr(e2))
	}
}

type decCfg struct {
	name      string
	api       sonic.API
	useNumber bool
	useInt64  bool
	std       bool // ValidateString etc: the std-compatible configuration
}

var decCfgs = []decCfg{
	{name: "ConfigStd", api: sonic.ConfigStd, std: true},
	{name: "ConfigDefault", api: sonic.ConfigDefault},
	{name: "ConfigStd+UseNumber", api: sonic.Config{EscapeHTML: true, SortMapKeys: true, CompactMarshaler: true, CopyString: true, ValidateString: true, UseNumber: true}.Froze(), useNumber: true, std: true},
	{name: "ConfigDefault+UseNumber", api: sonic.Config{UseNumber: true}.Froze(), useNumber: true},
	{name: "ConfigStd+UseInt64", api: sonic.Config{EscapeHTML: true, SortMapKeys: true, CompactMarshaler: true, CopyString: true, ValidateString: true, UseInt64: true}.Froze(), useInt64: true, std: true},
	{name: "ConfigDefault+UseInt64", api: sonic.Config{UseInt64: true}.Froze(), useInt64: true},
}

func toTree(v *ref.Value) *gen.Tree {
	t := &gen.Tree{Kind: int(v.Kind), B: v.B, Text: v.Text, Keys: v.Keys}
	for _, e := range v.Elems {
		t.Elems = append(t.Elems, toTree(e))
	}
	return t
}

// cleanStrings: the document is valid UTF-8 and has no raw control character
// inside a string literal (the precondition of the ConfigDefault clause).
func cleanStrings(doc string) bool {
	if !utf8.ValidString(doc) {
		return false
	}
	in := false
	for i := 0; i < len(doc); i++ {
		c := doc[i]
		if in {
			if c == '\\' {
				i++
			} else if c == '"' {
				in = false
			} else if c < 0x20 {
				return false
			}
			continue
		}
		if c == '"' {
			in = true
		}
	}
	return true
}

// convertInt64 applies the UseInt64 model to a value decoded with UseNumber:
// json.Number held in interface{} becomes int64 if it is -?digits fitting
// int64, float64 otherwise.
var int64ModelOverflow bool

func convertInt64(x interface{}) interface{} {
	switch v := x.(type) {
	case json.Number:
		if iv, ok := isInt64Lit(string(v)); ok {
			return iv
		}
		f, err := strconv.ParseFloat(string(v), 64)
		if err != nil {
			int64ModelOverflow = true // without UseNumber encoding/json reports a range error here
		}
		return f
	case []interface{}:
		for i := range v {
			v[i] = convertInt64(v[i])
		}
		return v
	case map[string]interface{}:
		for k, e := range v {
			v[k] = convertInt64(e)
		}
		return v
	}
	return x
}

func convertInt64Value(v reflect.Value, depth int) {
	if depth > 50 {
		return
	}
	switch v.Kind() {
	case reflect.Interface:
		if v.IsNil() {
			return
		}
		if v.NumMethod() == 0 {
			e := v.Elem()
			switch e.Interface().(type) {
			case json.Number, []interface{}, map[string]interface{}:
				if v.CanSet() {
					v.Set(reflect.ValueOf(convertInt64(e.Interface())))
				}
				return
			}
			if e.Kind() == reflect.Ptr {
				convertInt64Value(e, depth+1)
			}
		}
	case reflect.Ptr:
		if !v.IsNil() {
			convertInt64Value(v.Elem(), depth+1)
		}
	case reflect.Struct:
		for i := 0; i < v.NumField(); i++ {
			if v.Type().Field(i).PkgPath == "" || v.Type().Field(i).Anonymous {
				convertInt64Value(v.Field(i), depth+1)
			}
		}
	case reflect.Slice, reflect.Array:
		if v.Type().Elem().Kind() == reflect.Uint8 {
			return
		}
		for i := 0; i < v.Len(); i++ {
			convertInt64Value(v.Index(i), depth+1)
		}
	case reflect.Map:
		if v.IsNil() {
			return
		}
		et := v.Type().Elem()
		for _, k := range v.MapKeys() {
			e := v.MapIndex(k)
			if et.Kind() == reflect.Interface && et.NumMethod() == 0 && !e.IsNil() {
				switch e.Elem().Interface().(type) {
				case json.Number, []interface{}, map[string]interface{}:
					v.SetMapIndex(k, reflect.ValueOf(convertInt64(e.Elem().Interface())))
					continue
				}
			}
			if et.Kind() == reflect.Ptr || et.Kind() == reflect.Interface {
				convertInt64Value(e, depth+1)
			} else if et.Kind() == reflect.Struct || et.Kind() == reflect.Slice || et.Kind() == reflect.Map || et.Kind() == reflect.Array {
				// map elements are not addressable: copy, convert, store back
				cp := reflect.New(et).Elem()
				cp.Set(e)
				convertInt64Value(cp, depth+1)
				v.SetMapIndex(k, cp)
			}
		}
	}
}

// ---------------------------------------------------------------------------
// waiver predicates of open known findings (evaluated on the raw case)

var negZeroTok = regexp.MustCompile(`(^|[\[:,\s"])-0([\]},\s"]|$)`)
var f32Tok = regexp.MustCompile(`f32\(0x[0-9a-f]+\)`)
var intKeyMap = regexp.MustCompile(`map\[(\*?)(u?int(8|16|32|64|ptr)?|cat\.NamedInt|cat\.NamedUint8|verifharness/cat\.NamedInt|verifharness/cat\.NamedUint8)\]`)
var escapedKey = regexp.MustCompile(`"(?:[^"\\]|\\.)*\\(?:[^"\\]|\\.)*"\s*:`)

var keyLit = regexp.MustCompile(`"((?:[^"\\]|\\.)*)"\s*:`)
var plainInt = regexp.MustCompile(`^-?(0|[1-9][0-9]*)$`)

// hasOddIntKey: some object key denotes an integer for strconv (which is what
// encoding/json uses for integer map keys) but is not spelled as a plain JSON
// integer in the raw text: escape sequences, leading zeros, a plus sign.
func hasOddIntKey(doc string) bool {
	for _, m := range keyLit.FindAllStringSubmatch(doc, -1) {
		raw := m[1]
		if plainInt.MatchString(raw) {
			continue
		}
		un, ok := ref.Unquote(raw, true)
		if !ok {
			continue
		}
		if _, err := strconv.ParseInt(un, 10, 64); err == nil {
			return true
		}
		if _, err := strconv.ParseUint(un, 10, 64); err == nil {
			return true
		}
	}
	return false
}

// typeHas reports whether pred holds for t or any type reachable from it.
func typeHas(t reflect.Type, pred func(reflect.Type) bool) bool {
	seen := map[reflect.Type]bool{}
	var walk func(t reflect.Type) bool
	walk = func(t reflect.Type) bool {
		if seen[t] {
			return false
		}
		seen[t] = true
		if pred(t) {
			return true
		}
		switch t.Kind() {
		case reflect.Ptr, reflect.Slice, reflect.Array:
			return walk(t.Elem())
		case reflect.Map:
			return walk(t.Key()) || walk(t.Elem())
		case reflect.Struct:
			for i := 0; i < t.NumField(); i++ {
				if walk(t.Field(i).Type) {
					return true
				}
			}
		}
		return false
	}
	return walk(t)
}

func c01KnownDiff(cs *c01Case, sonicDump, stdDump string) (string, string) {
	// B24: the literal -0 decodes to +0
	if negZeroTok.MatchString(cs.doc) {
		norm := strings.NewReplacer("f64(0x8000000000000000)", "f64(0x0)", "f32(0x80000000)", "f32(0x0)")
		if norm.Replace(sonicDump) == norm.Replace(stdDump) {
			return "B24", "literal -0 decodes to +0"
		}
	}
	// B10: float32 via float64: only f32 tokens differ, each by exactly one ulp
	if strings.Contains(sonicDump, "f32(") {
		as, bs := f32Tok.FindAllString(sonicDump, -1), f32Tok.FindAllString(stdDump, -1)
		if len(as) == len(bs) && f32Tok.ReplaceAllString(sonicDump, "F") == f32Tok.ReplaceAllString(stdDump, "F") {
			ok := true
			for k := range as {
				x, _ := strconv.ParseUint(as[k][6:len(as[k])-1], 16, 32)
				y, _ := strconv.ParseUint(bs[k][6:len(bs[k])-1], 16, 32)
				if x != y && x+1 != y && y+1 != x {
					ok = false
				}
			}
			if ok {
				return "B10", "float32 parsed via float64 (double rounding)"
			}
		}
	}
	return "", ""
}

func c01KnownAccept(cs *c01Case, stdErr error) (string, string) {
	if strings.Contains(stdErr.Error(), "illegal base64 data") {
		return "B29", "malformed base64 text accepted for a []byte destination"
	}
	if unterminatedTail32(cs.doc) {
		return "B28", "unterminated final string taken as terminated"
	}
	return "", ""
}

func c01KnownReject(cs *c01Case, sonicErr error) (string, string) {
	if isOptdec && hasOverflowFloat(cs.doc) {
		return "B20", "optdec rejects a document containing an overflowing float literal"
	}
	if typeHas(cs.t, func(t reflect.Type) bool {
		if t.Kind() != reflect.Map {
			return false
		}
		switch t.Key().Kind() {
		case reflect.Int, reflect.Int8, reflect.Int16, reflect.Int32, reflect.Int64, reflect.Uint, reflect.Uint8, reflect.Uint16, reflect.Uint32, reflect.Uint64, reflect.Uintptr:
			return true
		}
		return false
	}) && hasOddIntKey(cs.doc) {
		return "B31", "integer map key spelled with an escape sequence is rejected"
	}
	return "", ""
}

var c01TypeOpts = gen.TypeOpts{MaxDepth: 4, Catalogue: cat.All, Erroring: cat.Erroring, NoPtrKeys: true}
var c01ValOpts = gen.ValOpts{BigSlices: true, MaxLen: 5, BadUTF8: true, NoEmptyKeys: false, NilChance: 5}

// c01Case is one generated decode case.
type c01Case struct {
	t       reflect.Type
	cfg     decCfg
	doc     string
	exact   bool // expectations are exact agreement with encoding/json
	prefill bool
	label   string
	seedDst uint64

	avoidB13 bool
	// (C18) a lone surrogate escape sits in the twice-quoted literal of a `,string` field
	loneInQuoted bool
}

func genC01Case(c *Ctx, i int) *c01Case { return genC01CaseR(c, c.Rng(i)) }

func genC01CaseR(c *Ctx, r *gen.Rng) *c01Case {
	cs := &c01Case{}
	switch r.Intn(10) {
	case 0, 1, 2:
		cs.t = cat.All[r.Intn(len(cat.All))]
		if r.Chance(1, 3) {
			cs.t = reflect.SliceOf(cs.t)
		} else if r.Chance(1, 4) {
			cs.t = reflect.MapOf(reflect.TypeOf(""), cs.t)
		} else if r.Chance(1, 5) {
			cs.t = reflect.PtrTo(cs.t)
		}
	default:
		cs.t = r.Type(&c01TypeOpts, 0)
	}
	cs.cfg = decCfgs[r.Weighted([]int{4, 4, 1, 1, 1, 1})]
	cs.prefill = r.Chance(1, 3)
	cs.seedDst = r.U64()
	// avoid-mode of known finding B13: map elements are decoded into the existing
	// element (merged) instead of a zero value. Types with composite map elements
	// get no pre-populated destination and no duplicated keys; the pinned witness
	// runs instead.
	mergeHazard := typeHas(cs.t, func(t reflect.Type) bool {
		// scalar elements too: `null` for an existing key leaves the old element where
		// encoding/json stores a zero element
		return t.Kind() == reflect.Map
	})
	if mergeHazard && c.Waive["B13"] {
		cs.prefill = false
		cs.avoidB13 = true
	}
	// a matching document from a random value of the type
	vo := c01ValOpts
	if cs.avoidB13 {
		vo.BadUTF8 = false // distinct invalid keys collapse to the same U+FFFD key = duplicated keys
	}
	v := r.Value(cs.t, &vo, 0)
	base, err := json.Marshal(v.Interface())
	kind := r.Intn(10)
	if err != nil || !json.Valid(base) {
		kind = 9
	}
	switch {
	case kind <= 6: // exact regime: remix of a matching document
		tree, ok := ref.Parse(string(base))
		if !ok {
			cs.doc = string(base)
			cs.exact = true
			cs.label = "std-marshal"
			break
		}
		o := gen.RemixOpts{Structure: r.Chance(2, 3), Keys: r.Chance(1, 2), Numbers: r.Chance(1, 2), WS: r.Bool(), Rate: r.Range(3, 14), NoDup: cs.avoidB13}
		if cs.cfg.std && !o.Structure && r.Chance(1, 2) {
			o.Content = 1
		}
		var lg gen.RemixLog
		cs.doc = r.Remix(toTree(tree), &o, &lg)
		cs.exact = true
		cs.label = "remix:" + strings.Join(lg.Applied, ",")
	case kind == 7: // arbitrary edits of a matching document
		cs.doc = r.Mutate(string(base))
		cs.label = "mutated"
	case kind == 8:
		d := gen.DefaultDoc
		cs.doc = r.Doc(&d)
		cs.exact = true
		cs.label = "random-valid-doc"
	default:
		d := gen.DefaultDoc
		cs.doc = r.Mutate(r.Doc(&d))
		cs.label = "random-mutated-doc"
	}
	if !cs.cfg.std && !cleanStrings(cs.doc) {
		// outside the ConfigDefault clause of the property
		cs.cfg = decCfgs[0]
	}
	return cs
}

func newDst(cs *c01Case) reflect.Value {
	p := reflect.New(cs.t)
	if cs.prefill {
		r := gen.New(cs.seedDst, 99)
		vo := c01ValOpts
		vo.BadUTF8 = false
		p.Elem().Set(r.Value(cs.t, &vo, 0))
	}
	return p
}

func stdUnmarshal(cs *c01Case, dst interface{}) error {
	src := strings.NewReader(cs.doc)
	dec := json.NewDecoder(src)
	if cs.cfg.useNumber || cs.cfg.useInt64 {
		dec.UseNumber()
	}
	if err := dec.Decode(dst); err != nil {
		return err
	}
	// json.Unmarshal semantics: nothing but white space may follow (what the decoder
	// has buffered plus what it has not read yet)
	rest, _ := readAll(dec.Buffered())
	rest2, _ := readAll(src)
	if strings.TrimLeft(rest+rest2, " \t\r\n") != "" {
		return fmt.Errorf("invalid character after top-level value")
	}
	return nil
}

func readAll(rd interface{ Read([]byte) (int, error) }) (string, error) {
	var b bytes.Buffer
	_, err := b.ReadFrom(rd)
	return b.String(), err
}

func runC01(c *Ctx) {
	N := c.N(3000, 200000)
	types := map[string]bool{}
	for i := 0; i < N; i++ {
		if c.Stop(i) {
			return
		}
		if !c.Begin(i) {
			continue
		}
		cs := genC01Case(c, i)
		c01Run(c, i, cs)
		desc := gen.Describe(cs.t)
		if !types[desc] {
			types[desc] = true
			c.Count("distinct_types", 1)
		}
		c.Distinct(gen.HashString(desc+"|"+cs.cfg.name+"|"+cs.doc), len(cs.doc) >= 2)
		c.Count("cfg_"+cs.cfg.name, 1)
		c.Count("regime_exact_"+strconv.FormatBool(cs.exact), 1)
		c.Sample(cs.cfg.name, 1, map[string]string{"type": trunc(desc, 200), "doc": q(cs.doc), "label": cs.label})
	}
}

func c01Run(c *Ctx, i int, cs *c01Case) {
	c.Vf("TYPE %s\nCFG %s prefill=%v label=%s\nDOC %q", gen.Describe(cs.t), cs.cfg.name, cs.prefill, cs.label, cs.doc)
	sd, jd := newDst(cs), newDst(cs)
	if gen.Dump(sd) != gen.Dump(jd) {
		c.Note(i, "inconclusive: the two initial destinations differ (harness)", gen.Describe(cs.t))
		return
	}
	// encoding/json mutates its input on a few paths? no; but keep separate copies anyway
	var serr error
	panicked := c.Guard(i, "Unmarshal", func() {
		serr = cs.cfg.api.Unmarshal([]byte(cs.doc), sd.Interface())
	})
	if panicked {
		return
	}
	if where := sliceBeyondCap(sd.Elem(), 0); where != "" {
		// whatever the document: a slice header whose length exceeds its capacity means the decoder
		// wrote past the memory it allocated
		c.Violate(i, "Unmarshal/"+cs.cfg.name, "decoded value holds a slice whose length exceeds its capacity (write beyond the allocation)", map[string]interface{}{"type": trunc(gen.Describe(cs.t), 300), "doc": q(cs.doc), "where": where})
	}
	var jerr error
	func() {
		defer func() {
			if e := recover(); e != nil {
				jerr = fmt.Errorf("encoding/json panicked: %v", e)
			}
		}()
		jerr = stdUnmarshal(cs, jd.Interface())
	}()
	if cs.cfg.useInt64 && jerr == nil {
		int64ModelOverflow = false
		convertInt64Value(jd.Elem(), 0)
		if int64ModelOverflow {
			jerr = fmt.Errorf("number out of float64 range inside interface{} (UseInt64 model: encoding/json without UseNumber reports a range error)")
		} else if hasOverflowFloat(cs.doc) {
			// the model looks at the final value only; an overflowing literal stored into an interface{}
			// that a later duplicate key overwrote is a (kept) range error for encoding/json without
			// UseNumber, and sonic's UseInt64 stores such literals as float64 just the same
			plain := newDst(cs)
			if e := json.Unmarshal([]byte(cs.doc), plain.Interface()); e != nil {
				if te, ok := e.(*json.UnmarshalTypeError); ok && strings.HasPrefix(te.Value, "number") {
					jerr = fmt.Errorf("UseInt64 model: encoding/json without UseNumber reports %v", e)
				}
			}
		}
	}
	detail := func() map[string]interface{} {
		return map[string]interface{}{"type": trunc(gen.Describe(cs.t), 700), "cfg": cs.cfg.name, "doc": q(cs.doc), "label": cs.label, "prefill": cs.prefill,
			"sonic_err": errStr(serr), "std_err": errStr(jerr)}
	}
	api := "Unmarshal/" + cs.cfg.name
	valid := json.Valid([]byte(cs.doc))
	switch {
	case jerr == nil && serr != nil:
		if id, why := c01KnownReject(cs, serr); id != "" {
			c.Known(id, i, api, why, detail())
			return
		}
		c.Violate(i, api, "sonic returns an error where encoding/json succeeds", detail())
	case jerr != nil && serr == nil:
		if id, why := c01KnownAccept(cs, jerr); id != "" {
			c.Known(id, i, api, why, detail())
			return
		}
		if cs.exact || valid || !ref.StructOK(cs.doc) {
			c.Violate(i, api, "sonic succeeds where encoding/json returns an error", detail())
		} else {
			c.Count("between_bounds_accepted", 1) // string-content leniency zone
		}
	case jerr == nil && serr == nil:
		a, b := gen.Dump(sd.Elem()), gen.Dump(jd.Elem())
		if a != b {
			d := detail()
			p := 0
			for p < len(a) && p < len(b) && a[p] == b[p] {
				p++
			}
			from := p - 60
			if from < 0 {
				from = 0
			}
			d["sonic"] = "@" + strconv.Itoa(from) + ": " + trunc(a[from:], 300)
			d["std"] = "@" + strconv.Itoa(from) + ": " + trunc(b[from:], 300)
			if id, why := c01KnownDiff(cs, a, b); id != "" {
				c.Known(id, i, api, why, d)
				return
			}
			// B12: under ValidateString the whole input is UTF-8-corrected before decoding,
			// so RawMessage / Unmarshaler / json.Number captures see corrected bytes.
			// Predicate: sonic's value equals encoding/json's value on the corrected document.
			if cs.cfg.std && !utf8.ValidString(cs.doc) {
				cs2 := *cs
				cs2.doc = string(ref.CorrectUTF8([]byte(cs.doc), "\xef\xbf\xbd"))
				jd2 := newDst(&cs2)
				if e := stdUnmarshal(&cs2, jd2.Interface()); e == nil {
					if cs.cfg.useInt64 {
						convertInt64Value(jd2.Elem(), 0)
					}
					b2 := gen.Dump(jd2.Elem())
					if b2 == a {
						c.Known("B12", i, api, "raw captures receive UTF-8-corrected bytes under ValidateString", d)
						return
					}
					if id, _ := c01KnownDiff(cs, a, b2); id != "" && c.Waive[id] {
						c.Known("B12", i, api, "raw captures receive UTF-8-corrected bytes under ValidateString (and "+id+")", d)
						return
					}
				}
			}
			c.Violate(i, api, "decoded value differs from encoding/json", d)
		} else {
			c.Count("both_ok_equal", 1)
		}
	default:
		c.Count("both_error", 1)
	}
}

// sliceBeyondCap looks for a slice with len > cap anywhere in v.
func sliceBeyondCap(v reflect.Value, depth int) string {
	if depth > 12 || !v.IsValid() {
		return ""
	}
	switch v.Kind() {
	case reflect.Slice:
		if v.Len() > v.Cap() {
			return fmt.Sprintf("%s len=%d cap=%d", v.Type(), v.Len(), v.Cap())
		}
		if k := v.Type().Elem().Kind(); k == reflect.Uint8 || k == reflect.Int8 {
			return ""
		}
		for j := 0; j < v.Len() && j < 50; j++ {
			if w := sliceBeyondCap(v.Index(j), depth+1); w != "" {
				return w
			}
		}
	case reflect.Array:
		for j := 0; j < v.Len() && j < 50; j++ {
			if w := sliceBeyondCap(v.Index(j), depth+1); w != "" {
				return w
			}
		}
	case reflect.Ptr, reflect.Interface:
		if !v.IsNil() {
			return sliceBeyondCap(v.Elem(), depth+1)
		}
	case reflect.Struct:
		for j := 0; j < v.NumField(); j++ {
			if w := sliceBeyondCap(v.Field(j), depth+1); w != "" {
				return w
			}
		}
	case reflect.Map:
		it := v.MapRange()
		for n := 0; it.Next() && n < 50; n++ {
			if w := sliceBeyondCap(it.Value(), depth+1); w != "" {
				return w
			}
		}
	}
	return ""
}
