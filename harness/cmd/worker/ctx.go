package main

import (
	"encoding/binary"
	"encoding/json"
	"flag"
	"fmt"
	"os"
	"runtime/debug"
	"sort"
	"strconv"
	"strings"
	"sync"

	"verifharness/gen"
)

// Ctx is the per-batch execution context of a workload. The log protocol (one
// line per event, written with a single write(2) so that it is on its way to
// the page cache before the call that may kill the process):
//
//	C <i>                 case i is about to run
//	V <json>              violation
//	K <json>              mismatch classified as an open known finding
//	D <i> <digest>        digest of case i for cross-process comparison
//	N <json>              note (inconclusive observation, oracle self-check)
//	S <json>              final statistics
//	E                     clean end of batch
type Ctx struct {
	Prop    string
	Tier    string
	Seed    uint64
	Batch   int
	NBatch  int
	Start   int
	Only    int
	Verbose bool
	Mode    string // workload variant chosen by the orchestrator
	Waive   map[string]bool
	// Filter lets a (single-goroutine) workload classify a mismatch as an open
	// known finding by a semantic predicate on the current case before it is
	// reported; it returns true when it has dealt with the report.
	Filter func(i int, api, msg string, detail interface{}) bool

	mu       sync.Mutex
	log      *os.File
	hashes   map[uint64]struct{}
	evals    int64
	nontriv  int64
	counters map[string]int64
	samples  []interface{}
	sampleK  map[string]int
	viol     int
	kf       map[string]int
	cur      int
}

var (
	fProp    = flag.String("prop", "", "property id")
	fTier    = flag.String("tier", "quick", "tier")
	fSeed    = flag.Uint64("seed", 1, "seed")
	fBatch   = flag.Int("batch", 0, "batch index")
	fNBatch  = flag.Int("nbatch", 1, "number of batches")
	fStart   = flag.Int("start", 0, "first case index to execute")
	fOnly    = flag.Int("only", -1, "execute only this case index (replay)")
	fOut     = flag.String("out", "", "log file")
	fVerbose = flag.Bool("v", false, "verbose (replay)")
	fMode    = flag.String("mode", "", "workload variant")
	fWaive   = flag.String("waive", "", "comma separated open known-finding ids")
	fWitness = flag.String("witness", "", "run the pinned witness of a known finding")
)

func newCtx() *Ctx {
	c := &Ctx{
		Prop: *fProp, Tier: *fTier, Seed: *fSeed, Batch: *fBatch, NBatch: *fNBatch,
		Start: *fStart, Only: *fOnly, Verbose: *fVerbose, Mode: *fMode,
		Waive:    map[string]bool{},
		hashes:   map[uint64]struct{}{},
		counters: map[string]int64{},
		sampleK:  map[string]int{},
		kf:       map[string]int{},
	}
	for _, w := range strings.Split(*fWaive, ",") {
		if w != "" {
			c.Waive[w] = true
		}
	}
	if *fOut != "" {
		f, err := os.OpenFile(*fOut, os.O_CREATE|os.O_WRONLY|os.O_APPEND, 0o644)
		if err != nil {
			fmt.Fprintln(os.Stderr, "worker: cannot open log:", err)
			os.Exit(3)
		}
		c.log = f
	} else {
		c.log = os.Stdout
	}
	return c
}

func (c *Ctx) Thorough() bool { return c.Tier == "thorough" }

// N picks a count by tier.
func (c *Ctx) N(quick, thorough int) int {
	if c.Thorough() {
		// the thorough count is bounded by a measured multiple of the quick count so that a
		// thorough run of any property ends within about a quarter of an hour on 16 cores
		k := thoroughCap[c.Prop]
		if v, err := strconv.Atoi(os.Getenv("VERIF_TCAP")); err == nil && v > 0 {
			k = v
		}
		if k > 0 && thorough > quick*k {
			return quick * k
		}
		return thorough
	}
	return quick
}

// thoroughCap: largest ratio thorough/quick of any case count, per property
// (chosen from measured quick-tier wall times; VERIF_TCAP overrides it).
var thoroughCap = map[string]int{
	"C01": 8, "C02": 8, "C03": 8, "C04": 4, "C05": 3, "C06": 3, "C07": 3, "C08": 3, "C09": 4, "C10": 3,
	"C11": 8, "C12": 8, "C13": 8, "C14": 8, "C15": 8, "C16": 8, "C17": 4, "C18": 8, "C19": 3, "C20": 8,
}

func (c *Ctx) write(s string) {
	c.log.WriteString(s)
}

// Rng returns the generator for case i of this batch: independent of every
// other case so that -start/-only replays see identical cases.
func (c *Ctx) Rng(i int) *gen.Rng {
	return gen.New(gen.Mix(c.Seed, gen.HashString(c.Prop), gen.HashString(c.Mode), uint64(c.Batch)), uint64(i)+1)
}

// GlobalIndex maps (batch, i) to a global case index for workloads that
// enumerate a fixed list: batch b handles indexes b, b+NBatch, ...
func (c *Ctx) Mine(global int) bool { return global%c.NBatch == c.Batch }

// Begin announces case i. It returns false if the case must be skipped.
func (c *Ctx) Begin(i int) bool {
	if c.Only >= 0 {
		if i != c.Only {
			return false
		}
	} else if i < c.Start {
		return false
	}
	c.mu.Lock()
	c.cur = i
	c.evals++
	c.mu.Unlock()
	c.write("C " + strconv.Itoa(i) + "\n")
	return true
}

// Done is true when a replay has executed its single case.
func (c *Ctx) Stop(i int) bool { return c.Only >= 0 && i > c.Only }

func (c *Ctx) Count(name string, d int64) {
	c.mu.Lock()
	c.counters[name] += d
	c.mu.Unlock()
}

// Distinct records the identity hash of a case and whether it is non-trivial.
func (c *Ctx) Distinct(h uint64, nontrivial bool) {
	if !nontrivial {
		return
	}
	c.mu.Lock()
	if _, ok := c.hashes[h]; !ok {
		c.hashes[h] = struct{}{}
		c.nontriv++
	}
	c.mu.Unlock()
}

// Sample keeps at most k samples per kind.
func (c *Ctx) Sample(kind string, k int, v interface{}) {
	c.mu.Lock()
	if c.sampleK[kind] < k {
		c.sampleK[kind]++
		c.samples = append(c.samples, map[string]interface{}{"kind": kind, "case": v})
	}
	c.mu.Unlock()
}

type Violation struct {
	Case   int         `json:"case"`
	API    string      `json:"api"`
	Msg    string      `json:"msg"`
	Detail interface{} `json:"detail,omitempty"`
}

func (c *Ctx) emit(tag string, v interface{}) {
	b, err := json.Marshal(v)
	if err != nil {
		b, _ = json.Marshal(fmt.Sprintf("%+v", v))
	}
	c.write(tag + " " + string(b) + "\n")
}

// Violate reports a violation for the current case.
func (c *Ctx) Violate(i int, api, msg string, detail interface{}) {
	if f := c.Filter; f != nil {
		c.Filter = nil // the filter may itself report
		handled := f(i, api, msg, detail)
		c.Filter = f
		if handled {
			return
		}
	}
	c.mu.Lock()
	c.viol++
	n := c.viol
	c.mu.Unlock()
	if n > 200 {
		return // enough witnesses; the count is still kept
	}
	c.emit("V", Violation{Case: i, API: api, Msg: msg, Detail: detail})
	if c.Verbose {
		fmt.Printf("VIOLATION case=%d api=%s: %s\n  %v\n", i, api, msg, detail)
	}
}

// Known reports a mismatch that satisfies the predicate of an open known
// finding. If the finding is not waived (not open in known_findings.json) it
// is a violation.
func (c *Ctx) Known(id string, i int, api, msg string, detail interface{}) {
	if !c.Waive[id] {
		c.Violate(i, api, "["+id+" not listed as open] "+msg, detail)
		return
	}
	c.mu.Lock()
	c.kf[id]++
	n := c.kf[id]
	c.mu.Unlock()
	if n <= 3 {
		c.emit("K", map[string]interface{}{"id": id, "case": i, "api": api, "msg": msg, "detail": detail})
	}
	if c.Verbose {
		fmt.Printf("KNOWN %s case=%d api=%s: %s\n  %v\n", id, i, api, msg, detail)
	}
}

func (c *Ctx) Note(i int, msg string, detail interface{}) {
	c.emit("N", map[string]interface{}{"case": i, "msg": msg, "detail": detail})
	c.Count("notes", 1)
}

func (c *Ctx) Digest(i int, d string) {
	c.write("D " + strconv.Itoa(i) + " " + d + "\n")
}

func (c *Ctx) Vf(format string, a ...interface{}) {
	if c.Verbose {
		fmt.Printf(format+"\n", a...)
	}
}

var curFile *os.File

// Cur records what is about to run in a side file (<log>.cur, overwritten in
// place): a fatal fault cannot be recovered, so the orchestrator reads this
// file to name the input that was running when the worker died.
func (c *Ctx) Cur(format string, a ...interface{}) {
	if c.Verbose {
		fmt.Printf("CUR "+format+"\n", a...)
	}
	if *fOut == "" {
		return
	}
	if curFile == nil {
		f, err := os.OpenFile(*fOut+".cur", os.O_CREATE|os.O_RDWR|os.O_TRUNC, 0o644)
		if err != nil {
			return
		}
		curFile = f
	}
	b := []byte(fmt.Sprintf(format, a...))
	if len(b) > 4000 {
		b = append(b[:4000], "..."...)
	}
	curFile.WriteAt(b, 0)
	curFile.Truncate(int64(len(b)))
}

// Guard runs f and converts a panic into a violation of the current case.
func (c *Ctx) Guard(i int, api string, f func()) (panicked bool) {
	defer func() {
		if r := recover(); r != nil {
			panicked = true
			st := string(debug.Stack())
			if len(st) > 3000 {
				st = st[:3000]
			}
			c.Violate(i, api, fmt.Sprintf("panic: %v", r), st)
		}
	}()
	f()
	return false
}

func (c *Ctx) Finish() {
	c.mu.Lock()
	defer c.mu.Unlock()
	if *fOut != "" {
		hf, err := os.Create(*fOut + ".hash")
		if err == nil {
			keys := make([]uint64, 0, len(c.hashes))
			for h := range c.hashes {
				keys = append(keys, h)
			}
			sort.Slice(keys, func(i, j int) bool { return keys[i] < keys[j] })
			buf := make([]byte, 8*len(keys))
			for i, h := range keys {
				binary.LittleEndian.PutUint64(buf[8*i:], h)
			}
			hf.Write(buf)
			hf.Close()
		}
	}
	c.emit("S", map[string]interface{}{
		"evals": c.evals, "nontrivial": c.nontriv, "violations": c.viol,
		"counters": c.counters, "samples": c.samples, "known": c.kf,
	})
	c.write("E\n")
}

func trunc(s string, n int) string {
	if len(s) <= n {
		return s
	}
	return s[:n] + fmt.Sprintf("...(%d bytes)", len(s))
}

// q renders bytes for reports: printable, unambiguous.
func q(s string) string {
	if len(s) <= 240 || os.Getenv("VERIF_FULLQ") != "" {
		return strconv.QuoteToASCII(s)
	}
	return strconv.QuoteToASCII(s[:120]) + fmt.Sprintf("...(%d bytes)...", len(s)) + strconv.QuoteToASCII(s[len(s)-80:])
}
