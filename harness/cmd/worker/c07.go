package main

import (
	"unicode/utf8"
	"bytes"
	"encoding/json"
	"fmt"
	"io"
	"reflect"
	"strings"

	"github.com/bytedance/sonic"
	"github.com/bytedance/sonic/ast"
	"github.com/bytedance/sonic/decoder"
	"github.com/bytedance/sonic/encoder"
	"github.com/bytedance/sonic/unquote"
	sutf8 "github.com/bytedance/sonic/utf8"

	"verifharness/cat"
	"verifharness/gen"
)

// C07: no input crashes, hangs or panics the process; every error is usable.
//
// One long sequence of hostile inputs per worker process, every public entry
// point on each input, all in the same process so that pooled state left behind
// by a failed call meets the next call. Oracles:
//   - recover() around every call: a panic is a violation;
//   - a fatal fault / stack exhaustion kills the worker: the orchestrator
//     reports it with the input description recorded just before (Cur);
//   - the orchestrator's watchdog: a hang is a violation for this property;
//   - logical progress: a loop of successful Decode calls on a stream must end
//     within len(input)+2 calls;
//   - every error: Error()/Description() return (under recover), the message is
//     at most c07MaxMsg bytes whatever the size of the input, the position lies
//     in [0, len(input)].

func init() {
	workloads["C07"] = runC07
}

const c07MaxMsg = 4096

type c07In struct {
	desc string
	data string
}

func c07Deep(r *gen.Rng, depth int) c07In {
	units := []struct{ open, close string }{{"[", "]"}, {`{"a":`, "}"}, {`[{"a":`, "}]"}, {`{"a":[`, "]}"}, {`{"k":{"a":[1,`, "]}}"}}
	u := units[r.Intn(len(units))]
	core := []string{"1", `"x"`, "", "null", "{}", "[]", `{"z":1}`}[r.Intn(7)]
	var sb strings.Builder
	sb.Grow(depth*(len(u.open)+len(u.close)) + 32)
	for k := 0; k < depth; k++ {
		sb.WriteString(u.open)
	}
	sb.WriteString(core)
	closeMode := r.Intn(5)
	nclose := depth
	switch closeMode {
	case 0: // complete
	case 1: // nothing closed
		nclose = 0
	case 2: // partially
		nclose = r.Intn(depth + 1)
	case 3, 4: // complete, but the outermost container goes on with a sibling
		nclose = depth - 1
	}
	for k := 0; k < nclose; k++ {
		sb.WriteString(u.close)
	}
	tail := ""
	if closeMode >= 3 && depth > 0 {
		if strings.HasPrefix(u.open, "[") {
			tail = `,2,{"b":[3]}` + u.close
		} else {
			tail = `,"b":2,"c":{"d":[]}` + u.close
		}
		sb.WriteString(tail)
	}
	return c07In{fmt.Sprintf("deep(unit=%q depth=%d core=%q closers=%d tail=%q)", u.open, depth, core, nclose, tail), sb.String()}
}

func c07Gen(c *Ctx, r *gen.Rng, i int) c07In {
	opts := gen.DefaultDoc
	switch r.Intn(12) {
	case 0:
		b := make([]byte, r.Range(0, 300))
		for k := range b {
			b[k] = byte(r.Intn(256))
		}
		return c07In{"random bytes", string(b)}
	case 1:
		return c07In{"token soup", r.Soup(r.Range(1, 60))}
	case 2, 3:
		return c07In{"mutated document", r.Mutate(r.Doc(&opts))}
	case 4: // around the documented limits, every push kind
		d := []int{4090, 4094, 4095, 4096, 4097, 4098, 4100, 2047, 2048, 8191, 8192, 65535, 65536}[r.Intn(13)]
		return c07Deep(r, d)
	case 5: // far beyond
		ds := []int{5000, 10000, 100000, 300000}
		if c.Thorough() {
			ds = append(ds, 1000000, 2000000)
		}
		return c07Deep(r, ds[r.Intn(len(ds))])
	case 6: // long tokens
		n := []int{1000, 65536, 100000, 1000000}[r.Intn(4)]
		switch r.Intn(7) {
		case 6:
			// a long run of UTF-8 continuation bytes next to an error (inside and outside a string)
			run := strings.Repeat(string([]byte{0x80 + byte(r.Intn(64))}), n)
			return c07In{fmt.Sprintf("%d continuation bytes around a syntax error", n), []string{`{"a":"` + run + `" x}`, `[1,` + run + `]`, `{"a":1 ` + run, `"` + run + `\q"`}[r.Intn(4)]}
		case 5:
			return c07In{fmt.Sprintf("object with a key of %d bytes", n), `{"` + strings.Repeat("k", n) + `":1,"a":2}`}
		case 0:
			return c07In{fmt.Sprintf("string of %d escapes", n), `"` + strings.Repeat(`é\n`, n/8) + `"`}
		case 1:
			return c07In{fmt.Sprintf("number of %d digits", n), "-" + strings.Repeat("9", n) + "." + strings.Repeat("1", n/2) + "e+" + strings.Repeat("7", r.Range(1, 30))}
		case 2:
			var sb strings.Builder
			sb.WriteString("{")
			for k := 0; k < n/16; k++ {
				fmt.Fprintf(&sb, `"k%d":%d,`, k, k)
			}
			sb.WriteString(`"last":[]}`)
			return c07In{fmt.Sprintf("object of %d keys", n/16), sb.String()}
		case 3:
			return c07In{fmt.Sprintf("%d spaces then garbage", n), strings.Repeat(" \n\t", n/3) + []string{"", "x", "[", `"`, "1"}[r.Intn(5)]}
		default:
			return c07In{fmt.Sprintf("unterminated string of %d bytes", n), `{"a":"` + strings.Repeat("x", n)}
		}
	case 7:
		return c07In{"raw string in quotes", `"` + r.RawString(400) + `"`}
	case 8:
		return c07In{"escape body in quotes", `{"a":"` + r.EscapedBody(8) + `","` + r.EscapedBody(3) + `":1}`}
	case 9:
		return c07In{"block document", gen.BlockDoc(r.Intn(6), r.Range(0, 140), r.Range(0, 140), []string{`\"`, `\\`, `"`, `\`, "\x00", "\xff", "[", "}"}[r.Intn(8)])}
	case 10:
		d := r.Doc(&opts)
		return c07In{"truncated document", d[:r.Intn(len(d)+1)]}
	default:
		return c07In{"valid document", r.Doc(&opts)}
	}
}

// c07Err checks that an error value is usable.
func c07Err(c *Ctx, i int, api string, in *c07In, err error) {
	if err == nil {
		return
	}
	c.Count("errors_checked", 1)
	var msg string
	if c.Guard(i, api+": err.Error()", func() { msg = err.Error() }) {
		return
	}
	bad := func(what string, extra map[string]interface{}) {
		d := map[string]interface{}{"input": in.desc, "input_len": len(in.data), "error_type": fmt.Sprintf("%T", err), "message_len": len(msg), "message_head": q(trunc(msg, 160))}
		for k, v := range extra {
			d[k] = v
		}
		if len(in.data) <= 300 {
			d["input_bytes"] = q(in.data)
		}
		c.Violate(i, api, what, d)
	}
	if len(msg) > c07MaxMsg {
		bad("error message is not bounded: it grows with the input", nil)
	}
	if e, ok := err.(*json.UnsupportedValueError); ok && (e.Str == "" || !utf8.ValidString(e.Str)) {
		// (the decoder's nesting-limit error is a pre-built value: its fields must be those of that value)
		bad("an UnsupportedValueError without a description (the error value is not the one that was built)", map[string]interface{}{"str": q(e.Str)})
	}
	pos, hasPos := 0, false
	// the source the error refers to: the input, or the corrected copy that ValidateString decodes
	// (invalid bytes replaced by U+FFFD make it longer) - the error carries it in Src
	srcLen := len(in.data)
	switch e := err.(type) {
	case decoder.SyntaxError:
		pos, hasPos = e.Pos, true
		if e.Src != "" && len(e.Src) != len(in.data) {
			srcLen = len(e.Src)
		}
		c.Guard(i, api+": Description()", func() {
			if d := e.Description(); len(d) > c07MaxMsg {
				bad("Description() is not bounded", map[string]interface{}{"description_len": len(d)})
			}
		})
	case *decoder.SyntaxError:
		pos, hasPos = e.Pos, true
		if e.Src != "" && len(e.Src) != len(in.data) {
			srcLen = len(e.Src)
		}
	case *decoder.MismatchTypeError:
		pos, hasPos = e.Pos, true
		if e.Src != "" && len(e.Src) != len(in.data) {
			srcLen = len(e.Src)
		}
		c.Guard(i, api+": Description()", func() {
			if d := e.Description(); len(d) > c07MaxMsg {
				bad("Description() is not bounded", map[string]interface{}{"description_len": len(d)})
			}
		})
	case ast.SyntaxError:
		pos, hasPos = e.Pos, true
		if e.Src != "" && len(e.Src) != len(in.data) {
			srcLen = len(e.Src)
		}
		c.Guard(i, api+": Description()", func() {
			if d := e.Description(); len(d) > c07MaxMsg {
				bad("Description() is not bounded", map[string]interface{}{"description_len": len(d)})
			}
		})
	case *ast.SyntaxError:
		pos, hasPos = e.Pos, true
		if e.Src != "" && len(e.Src) != len(in.data) {
			srcLen = len(e.Src)
		}
	}
	if hasPos && (pos < 0 || pos > srcLen) {
		bad("error position lies outside the input", map[string]interface{}{"pos": pos})
	}
}

// c07SmallReader delivers at most n bytes per Read.
type c07SmallReader struct {
	data []byte
	n    int
}

func (r *c07SmallReader) Read(p []byte) (int, error) {
	if len(r.data) == 0 {
		return 0, io.EOF
	}
	k := r.n
	if k > len(p) {
		k = len(p)
	}
	if k > len(r.data) {
		k = len(r.data)
	}
	copy(p, r.data[:k])
	r.data = r.data[k:]
	return k, nil
}

type c07Visitor struct{ n int }

func (v *c07Visitor) OnNull() error                          { v.n++; return nil }
func (v *c07Visitor) OnBool(bool) error                      { v.n++; return nil }
func (v *c07Visitor) OnString(string) error                  { v.n++; return nil }
func (v *c07Visitor) OnInt64(int64, json.Number) error       { v.n++; return nil }
func (v *c07Visitor) OnFloat64(float64, json.Number) error   { v.n++; return nil }
func (v *c07Visitor) OnObjectBegin(int) error                { v.n++; return nil }
func (v *c07Visitor) OnObjectKey(string) error               { v.n++; return nil }
func (v *c07Visitor) OnObjectEnd() error                     { v.n++; return nil }
func (v *c07Visitor) OnArrayBegin(int) error                 { v.n++; return nil }
func (v *c07Visitor) OnArrayEnd() error                      { v.n++; return nil }

var c07Types = []reflect.Type{
	reflect.TypeOf((*interface{})(nil)).Elem(), reflect.TypeOf(map[string]interface{}(nil)), reflect.TypeOf([]interface{}(nil)),
	reflect.TypeOf(cat.Tree{}), reflect.TypeOf(cat.List{}), reflect.TypeOf(c02Struct{}), reflect.TypeOf(json.RawMessage(nil)),
	reflect.TypeOf(map[string]map[string][]int(nil)), reflect.TypeOf([][][][]string(nil)), reflect.TypeOf(""), reflect.TypeOf(0.0), reflect.TypeOf(cat.Embeds{}),
	reflect.TypeOf(cat.Ifaces{}), reflect.TypeOf(cat.MapKeys{}), reflect.TypeOf(cat.Big{}),
}

// c07Decode: every decoding / scanning entry point on one input.
func c07Decode(c *Ctx, i int, in *c07In, r *gen.Rng) {
	s := in.data
	data := []byte(s)
	if len(s) <= 3 && strings.ContainsAny(s, "tnf") {
		// finding B43: on inputs shorter than 4 bytes the literal scanner loads 4 bytes; when the input is
		// a prefix of a longer string ("fa" cut from "false") the literal is matched behind the end and
		// the returned position makes the Go caller slice out of range
		c.Filter = func(i int, api, msg string, detail interface{}) bool {
			c.Known("B43", i, api, msg, detail)
			return true
		}
		defer func() { c.Filter = nil }()
	}
	call := func(api string, f func() error) {
		c.Cur("case %d %s on %s (%d bytes)", i, api, in.desc, len(s))
		var err error
		if c.Guard(i, api, func() { err = f() }) {
			c.Violate(i, api, "panic context", map[string]interface{}{"input": in.desc, "input_bytes": q(trunc(s, 300))})
			return
		}
		c.Count("calls", 1)
		c07Err(c, i, api, in, err)
	}
	call("Valid", func() error { sonic.Valid(data); return nil })
	call("ValidString", func() error { sonic.ValidString(s); return nil })
	cfgs := []sonic.API{sonic.ConfigDefault, sonic.ConfigStd, sonic.ConfigFastest, cfgUseNumber}
	big := len(s) > 200000
	for k, t := range c07Types {
		if big && k >= 6 {
			break
		}
		cfg := cfgs[(i+k)%len(cfgs)]
		call("Unmarshal("+t.String()+")", func() error { return cfg.UnmarshalFromString(s, reflect.New(t).Interface()) })
	}
	call("decoder.Decoder+DisallowUnknownFields", func() error {
		d := decoder.NewDecoder(s)
		d.DisallowUnknownFields()
		var v struct {
			A interface{} `json:"a"`
			B struct{ X int }
		}
		return d.Decode(&v)
	})
	call("decoder.Skip", func() error { decoder.Skip(data); return nil })
	call("decoder.Decoder x2", func() error {
		d := decoder.NewDecoder(s)
		var v interface{}
		if err := d.Decode(&v); err != nil {
			return err
		}
		p := d.Pos()
		if p < 0 || p > len(s) {
			c.Violate(i, "decoder.Decoder.Pos", "position outside the input after a successful Decode", map[string]interface{}{"pos": p, "len": len(s), "input": in.desc})
		}
		err := d.Decode(&v)
		if err == nil && d.Pos() <= p && p < len(s) {
			c.Violate(i, "decoder.Decoder.Decode", "second successful Decode without progress", map[string]interface{}{"pos": d.Pos(), "input": in.desc, "input_bytes": q(trunc(s, 300))})
		}
		return err
	})
	for _, bufsz := range []int{0, 1, 7} {
		call("StreamDecoder loop", func() error {
			var rd io.Reader = strings.NewReader(s)
			if bufsz > 0 {
				rd = &c07SmallReader{data: data, n: bufsz}
			}
			d := sonic.ConfigDefault.NewDecoder(rd)
			limit := len(s) + 3
			if limit > 20000 {
				limit = 20000
			}
			for k := 0; ; k++ {
				var v interface{}
				if err := d.Decode(&v); err != nil {
					// the other methods of a decoder that has stopped must stay callable
					_ = d.Buffered()
					_ = d.More()
					if err == io.EOF {
						return nil
					}
					return err
				}
				if k > limit {
					c.Violate(i, "StreamDecoder.Decode", "keeps returning success without reaching the end of the input", map[string]interface{}{"calls": k, "input": in.desc, "input_bytes": q(trunc(s, 300))})
					return nil
				}
				if !d.More() && d.Buffered() == nil {
					return nil
				}
			}
		})
		if len(s) > 3000 {
			// the stream decoder re-scans its buffer after every Read: tiny reads on large inputs are
			// quadratic (slow, not hanging) and would only trip the watchdog
			break
		}
	}
	paths :=[][]interface{}{{}, {"a"}, {0}, {"a", "a", "a", 0, "a"}, {"k", "a", 1}, {0, 0, 0, 0}, {"last"}, {"b"}}
	for _, p := range paths {
		p := p
		call(fmt.Sprintf("Get%v", p), func() error {
			n, err := sonic.GetFromString(s, p...)
			if err != nil {
				return err
			}
			if _, err := n.Raw(); err != nil {
				return err
			}
			if _, err := n.Interface(); err != nil {
				return err
			}
			_, err = n.MarshalJSON()
			return err
		})
	}
	call("NewRaw+LoadAll+MarshalJSON", func() error {
		n := ast.NewRaw(s)
		if err := n.Check(); err != nil {
			return err
		}
		if err := n.LoadAll(); err != nil {
			return err
		}
		_, err := n.MarshalJSON()
		return err
	})
	call("NewSearcher+Load+ForEach+SortKeys", func() error {
		n, err := ast.NewSearcher(s).GetByPath()
		if err != nil {
			return err
		}
		if err := n.Load(); err != nil {
			return err
		}
		cnt := 0
		n.ForEach(func(path ast.Sequence, node *ast.Node) bool { cnt++; return cnt < 100 })
		n.SortKeys(true)
		_, err = n.Interface()
		return err
	})
	call("NewParser.Parse", func() error {
		_, e := ast.NewParser(s).Parse()
		if e != 0 {
			return e
		}
		return nil
	})
	call("Preorder", func() error { return ast.Preorder(s, &c07Visitor{}, nil) })
	call("Preorder(trailing)", func() error { return ast.Preorder(s, &c07Visitor{}, &ast.VisitorOptions{OnlyNumber: true}) })
	if !big {
		call("string routines", func() error {
			encoder.Quote(s)
			unquote.String(s)
			encoder.HTMLEscape(nil, data)
			// a destination that is already long (and has little spare room)
			pre := make([]byte, 70000, 70000+(i%3)*40)
			if out := encoder.HTMLEscape(pre, data); len(out) < len(pre) {
				c.Violate(i, "encoder.HTMLEscape", "result shorter than its destination prefix", map[string]interface{}{"input": in.desc})
			}
			sutf8.ValidateString(s)
			sutf8.CorrectWith(nil, data, "?")
			return nil
		})
		call("Marshal(RawMessage)", func() error { _, err := sonic.ConfigStd.Marshal(json.RawMessage(data)); return err })
		call("Marshal(Number)", func() error { _, err := sonic.Marshal(json.Number(s)); return err })
		call("Marshal(string, ValidateString)", func() error { _, err := sonic.ConfigStd.Marshal(map[string]string{s: s}); return err })
	}
}

// ---------------------------------------------------------------------------

type c07Node struct {
	V    int
	Next *c07Node
	Kids []*c07Node
	M    map[string]*c07Node
	I    interface{}
}

type c07BadMarshaler struct{ out string }

func (m c07BadMarshaler) MarshalJSON() ([]byte, error) { return []byte(m.out), nil }

// c07Values: cyclic, extremely deep and otherwise hostile Go values for the encoder.
// self-referential pointer types: a cycle that consists of pointers only
type c07P *c07P
type c07PA *c07PB
type c07PB *c07PA

func c07Values(c *Ctx, r *gen.Rng) (string, interface{}, bool) {
	switch r.Intn(10) {
	case 9:
		if r.Bool() {
			var p c07P
			p = c07P(&p)
			return "cycle of pointers only (type P *P; p = &p)", p, true
		}
		var a c07PA
		var b c07PB
		a = c07PA(&b)
		b = c07PB(&a)
		return "cycle of pointers only through two pointer types", a, true
	case 0:
		n := &c07Node{V: 1}
		n.Next = n
		return "pointer cycle of length 1", n, true
	case 1:
		a, b, d := &c07Node{V: 1}, &c07Node{V: 2}, &c07Node{V: 3}
		a.Kids = []*c07Node{b}
		b.M = map[string]*c07Node{"x": d}
		d.I = a
		return "cycle through slice, map and interface", a, true
	case 2:
		m := map[string]interface{}{}
		m["self"] = m
		return "map containing itself", m, true
	case 3:
		s := make([]interface{}, 1)
		s[0] = s
		return "slice containing itself", s, true
	case 4:
		d := []int{100, 1000, 4095, 4096, 4097, 10000, 100000}
		if c.Thorough() {
			d = append(d, 1000000)
		}
		depth := d[r.Intn(len(d))]
		var v interface{} = 1
		kind := r.Intn(3)
		for k := 0; k < depth; k++ {
			switch kind {
			case 0:
				v = []interface{}{v}
			case 1:
				v = map[string]interface{}{"a": v}
			default:
				v = &v
				var nv interface{} = v
				v = nv
			}
		}
		return fmt.Sprintf("finite value nested %d levels (kind %d)", depth, kind), v, false
	case 5:
		depth := []int{100, 5000, 70000}[r.Intn(3)]
		var head *c07Node
		for k := 0; k < depth; k++ {
			head = &c07Node{V: k, Next: head}
		}
		return fmt.Sprintf("linked list of %d nodes", depth), head, false
	case 6:
		outs := []string{"", "{", `{"a":`, strings.Repeat("[", 5000), strings.Repeat("[", 5000) + strings.Repeat("]", 5000), "\xff", `"` + strings.Repeat("x", 70000), "nul", "1 2"}
		o := outs[r.Intn(len(outs))]
		return fmt.Sprintf("Marshaler returning %q", trunc(o, 20)), []interface{}{c07BadMarshaler{o}, map[string]c07BadMarshaler{"k": {o}}}, false
	case 7:
		return "channel and func inside a struct", struct {
			A int
			C chan int
			F func()
		}{1, make(chan int), func() {}}, true
	default:
		t := r.Type(&c03TypeOpts, 0)
		vo := gen.ValOpts{MaxLen: 4, NilChance: 4, NaN: true, BadUTF8: true, BadNumber: true, IfaceTyped: true, Catalogue: encCat}
		return "random value of " + trunc(gen.Describe(t), 80), r.Value(t, &vo, 0).Interface(), false
	}
}

func c07Encode(c *Ctx, i int, r *gen.Rng) {
	desc, v, mustFail := c07Values(c, r)
	in := &c07In{desc: desc}
	call := func(api string, f func() error) {
		c.Cur("case %d %s of %s", i, api, desc)
		var err error
		if c.Guard(i, api, func() { err = f() }) {
			c.Violate(i, api, "panic context", map[string]interface{}{"value": desc})
			return
		}
		c.Count("calls", 1)
		if err == nil && mustFail {
			c.Violate(i, api, "a value without a finite JSON representation encoded without an error", map[string]interface{}{"value": desc})
		}
		if err != nil {
			in.data = strings.Repeat(" ", 1<<20) // encoder errors carry no input position
			c07Err(c, i, api, in, err)
		}
	}
	call("Marshal", func() error { _, err := sonic.Marshal(v); return err })
	call("ConfigStd.Marshal", func() error { _, err := sonic.ConfigStd.Marshal(v); return err })
	call("MarshalIndent", func() error { _, err := sonic.ConfigStd.MarshalIndent(v, "", " "); return err })
	call("encoder.Encode(all options)", func() error { _, err := encoder.Encode(v, encoder.Options(r.Intn(512))); return err })
	call("EncodeInto", func() error { b := make([]byte, 0, r.Intn(100)); return encoder.EncodeInto(&b, v, 0) })
	call("StreamEncoder", func() error { var w bytes.Buffer; return sonic.ConfigDefault.NewEncoder(&w).Encode(v) })
	call("ast.NewAny.MarshalJSON", func() error { n := ast.NewAny(v); _, err := n.MarshalJSON(); return err })
}

func runC07(c *Ctx) {
	N := c.N(700, 60000)
	for i := 0; i < N; i++ {
		if c.Stop(i) {
			return
		}
		if !c.Begin(i) {
			continue
		}
		r := c.Rng(i)
		if i%5 == 4 {
			c07Encode(c, i, r)
			c.Distinct(gen.HashString(fmt.Sprint("enc", c.Batch, i)), true)
			continue
		}
		in := c07Gen(c, r, i)
		c07Decode(c, i, &in, r)
		c.Count("inputs_"+strings.SplitN(in.desc, "(", 2)[0], 1)
		c.Distinct(gen.HashString(in.data), len(in.data) > 1)
	}
}
