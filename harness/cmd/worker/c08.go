package main

import (
	"os"
	"encoding/json"
	"fmt"
	"reflect"
	"regexp"
	"runtime"
	"sort"
	"strings"
	"sync"
	"sync/atomic"
	"time"

	"github.com/anishathalye/porcupine"
	"github.com/bytedance/sonic"
	"github.com/bytedance/sonic/encoder"
	"github.com/bytedance/sonic/verifbridge"

	"verifharness/cat"
	"verifharness/gen"
)

// C08: codecs under arbitrary concurrent use.
//
// Monitor 1 (history + executable model): the RCU program cache behind the codec
// caches is driven, through its real Get/Compute entry points (verifbridge.PCache,
// a private instance), by G goroutines over a handful of keys with unique values;
// every call is recorded at the client boundary with a logical clock (one atomic
// counter ticked before the call and after the return) and the history is checked
// for linearizability against a sequential map with porcupine, partitioned by key.
// Large-key rounds force rehash under concurrent readers.
//
// Monitor 2 (sequential oracle): G goroutines released by a barrier call Marshal,
// Unmarshal, Valid, Get, Pretouch, encoder.Encode over types that no codec has been
// compiled for yet (fresh reflect-built struct types per round; in the first rounds
// of a process also the recursive catalogue types); afterwards every call is run
// again alone and the results must be identical. The race-detector build of the
// same workload reports unsynchronised accesses to caches, pools and tables.

func init() {
	workloads["C08"] = runC08
}

type c08In struct {
	Get bool
	Val int64 // the value the compute function would produce (unique), Compute only
	Err bool  // the compute function fails
	Key int
}

type c08Out struct {
	Val int64 // 0 = nil
	Err bool
}

var c08Model = porcupine.Model{
	Partition: func(history []porcupine.Operation) [][]porcupine.Operation {
		m := map[int][]porcupine.Operation{}
		var keys []int
		for _, op := range history {
			k := op.Input.(c08In).Key
			if _, ok := m[k]; !ok {
				keys = append(keys, k)
			}
			m[k] = append(m[k], op)
		}
		sort.Ints(keys)
		out := make([][]porcupine.Operation, 0, len(keys))
		for _, k := range keys {
			out = append(out, m[k])
		}
		return out
	},
	Init: func() interface{} { return int64(0) },
	Step: func(state, input, output interface{}) (bool, interface{}) {
		st, in, out := state.(int64), input.(c08In), output.(c08Out)
		if in.Get {
			return !out.Err && out.Val == st, st
		}
		if st != 0 {
			// present: returned as is, the compute function is not consulted
			return !out.Err && out.Val == st, st
		}
		if in.Err {
			return out.Err && out.Val == 0, st
		}
		return !out.Err && out.Val == in.Val, in.Val
	},
	Equal: func(a, b interface{}) bool { return a.(int64) == b.(int64) },
	DescribeOperation: func(input, output interface{}) string {
		in, out := input.(c08In), output.(c08Out)
		if in.Get {
			return fmt.Sprintf("Get(k%d) -> %d", in.Key, out.Val)
		}
		return fmt.Sprintf("Compute(k%d, mk=%d/err=%v) -> %d err=%v", in.Key, in.Val, in.Err, out.Val, out.Err)
	},
}

var c08KeyTypes []reflect.Type

func c08Key(k int) reflect.Type {
	for len(c08KeyTypes) <= k {
		n := len(c08KeyTypes)
		// distinct runtime types; hashes spread and collide as real types do
		var t reflect.Type
		switch n % 3 {
		case 0:
			t = reflect.ArrayOf(n+1, reflect.TypeOf(byte(0)))
		case 1:
			t = reflect.ArrayOf(n+1, reflect.TypeOf(""))
		default:
			t = reflect.PtrTo(reflect.ArrayOf(n+1, reflect.TypeOf(int32(0))))
		}
		c08KeyTypes = append(c08KeyTypes, t)
	}
	return c08KeyTypes[k]
}

func c08Cache(c *Ctx, i int, r *gen.Rng) {
	defer hookSchedule(c, i, pcacheHooks)()
	G := r.Range(2, 12)
	K := []int{1, 2, 3, 5, 8, 40}[r.Intn(6)]
	M := 160 / G
	big := r.Chance(1, 5)
	if big {
		// many keys: copy-on-write growth and rehash under concurrent lock-free readers
		K = r.Range(300, 3000)
		if strings.Contains(c.Mode, "race") {
			// every insert copies the whole table (copy-on-write); instrumented, that is slow
			K = r.Range(300, 900)
		}
		M = 2 * K / G
	}
	for k := 0; k < K; k++ {
		c08Key(k)
	}
	pc := verifbridge.NewPCache()
	var clk int64
	var uid int64
	hist := make([][]porcupine.Operation, G)
	seeds := make([]*gen.Rng, G)
	for g := range seeds {
		seeds[g] = gen.New(r.U64(), uint64(g)+1)
	}
	start := make(chan struct{})
	var wg sync.WaitGroup
	for g := 0; g < G; g++ {
		wg.Add(1)
		go func(g int) {
			defer wg.Done()
			rr := seeds[g]
			<-start
			for m := 0; m < M; m++ {
				key := rr.Intn(K)
				t := c08KeyTypes[key]
				if rr.Intn(3) == 0 {
					in := c08In{Get: true, Key: key}
					call := atomic.AddInt64(&clk, 1)
					v := pc.Get(t)
					ret := atomic.AddInt64(&clk, 1)
					out := c08Out{}
					if v != nil {
						out.Val = v.(int64)
					}
					hist[g] = append(hist[g], porcupine.Operation{ClientId: g, Input: in, Call: call, Output: out, Return: ret})
				} else {
					val := atomic.AddInt64(&uid, 1)
					fail := rr.Chance(1, 8)
					delay := rr.Intn(4)
					in := c08In{Val: val, Err: fail, Key: key}
					call := atomic.AddInt64(&clk, 1)
					v, err := pc.Compute(t, func() (interface{}, error) {
						for d := 0; d < delay; d++ {
							runtime.Gosched()
						}
						if fail {
							return nil, fmt.Errorf("compile failed")
						}
						return val, nil
					})
					ret := atomic.AddInt64(&clk, 1)
					out := c08Out{Err: err != nil}
					if v != nil {
						out.Val = v.(int64)
					}
					hist[g] = append(hist[g], porcupine.Operation{ClientId: g, Input: in, Call: call, Output: out, Return: ret})
				}
				if rr.Chance(1, 4) {
					runtime.Gosched()
				}
			}
		}(g)
	}
	close(start)
	wg.Wait()
	var all []porcupine.Operation
	for _, h := range hist {
		all = append(all, h...)
	}
	res, info := porcupine.CheckOperationsVerbose(c08Model, all, 60*time.Second)
	// what was interleaved (from the recorded call/return stamps): operations on the same key whose
	// intervals overlap, Compute calls that lost to a concurrent Compute of the same key, and
	// Gets that overlapped the Compute that first filled their key
	{
		byKey := map[int][]porcupine.Operation{}
		for _, op := range all {
			k := op.Input.(c08In).Key
			byKey[k] = append(byKey[k], op)
		}
		var overlapPairs, lostComputes, getsDuringFill int64
		for _, ops := range byKey {
			sort.Slice(ops, func(a, b int) bool { return ops[a].Call < ops[b].Call })
			for a := 0; a < len(ops); a++ {
				for b := a + 1; b < len(ops) && ops[b].Call < ops[a].Return; b++ {
					overlapPairs++
					ia, ib := ops[a].Input.(c08In), ops[b].Input.(c08In)
					oa, ob := ops[a].Output.(c08Out), ops[b].Output.(c08Out)
					if !ia.Get && !ib.Get && !ia.Err && !ib.Err && (oa.Val != ia.Val || ob.Val != ib.Val) {
						lostComputes++
					}
					if ia.Get != ib.Get {
						cmp, cin := oa, ia
						if ia.Get {
							cmp, cin = ob, ib
						}
						if !cin.Err && cmp.Val == cin.Val {
							getsDuringFill++
						}
					}
				}
			}
		}
		c.Count("cache_same_key_operation_pairs_overlapping_in_time", overlapPairs)
		c.Count("cache_computes_that_lost_to_an_overlapping_compute", lostComputes)
		c.Count("cache_gets_overlapping_the_compute_that_filled_the_key", getsDuringFill)
	}
	c.Count("cache_histories", 1)
	c.Count("cache_operations", int64(len(all)))
	c.Count(fmt.Sprintf("cache_histories_keys_%s", map[bool]string{false: "few", true: "many"}[big]), 1)
	switch res {
	case porcupine.Ok:
	case porcupine.Unknown:
		c.Note(i, "inconclusive: linearizability checker timed out", map[string]int{"operations": len(all), "keys": K, "goroutines": G})
		c.Count("cache_histories_inconclusive", 1)
	default:
		// witness: the operations on the offending keys, in call order
		var lines []string
		parts := info.PartialLinearizations()
		for p, lin := range parts {
			if len(lines) > 40 {
				break
			}
			_ = lin
			_ = p
		}
		sort.Slice(all, func(a, b int) bool { return all[a].Call < all[b].Call })
		for _, op := range all {
			if len(lines) < 60 {
				lines = append(lines, fmt.Sprintf("g%d [%d,%d] %s", op.ClientId, op.Call, op.Return, c08Model.DescribeOperation(op.Input, op.Output)))
			}
		}
		c.Violate(i, "caching.ProgramCache", "history of concurrent Get/Compute calls is not linearizable with respect to a map", map[string]interface{}{"goroutines": G, "keys": K, "operations": len(all), "history_head": lines})
	}
}

// ---------------------------------------------------------------------------

type c08Call struct {
	kind string
	t    reflect.Type
	v    reflect.Value
	doc  string
	opts encoder.Options
	path []interface{}

	respell bool
}

var c08Spell uint64

func (x *c08Call) run() (res string) {
	defer func() {
		if r := recover(); r != nil {
			res = fmt.Sprintf("PANIC %v", r)
		}
	}()
	if x.respell {
		// every execution spells the keys in another mix of upper and lower case: the decoded value does not depend on it
		n := atomic.AddUint64(&c08Spell, 0x9e3779b97f4a7c15)
		doc := c08FreshKeyRe.ReplaceAllStringFunc(x.doc, func(k string) string {
			b := []byte(k)
			for j := range b {
				n = n*6364136223846793005 + 1442695040888963407
				if n>>63 == 1 && b[j] >= 'a' && b[j] <= 'z' {
					b[j] -= 32
				}
			}
			return string(b)
		})
		y := *x
		y.respell, y.doc = false, doc
		return y.run()
	}
	switch x.kind {
	case "Marshal":
		o, err := sonic.ConfigStd.Marshal(x.v.Interface())
		return string(o) + "|" + errStr(err)
	case "Encode":
		o, err := encoder.Encode(x.v.Interface(), x.opts|encoder.SortMapKeys)
		return string(o) + "|" + errStr(err)
	case "MarshalPtr":
		p := reflect.New(x.t)
		p.Elem().Set(x.v)
		o, err := sonic.ConfigStd.Marshal(p.Interface())
		return string(o) + "|" + errStr(err)
	case "Unmarshal":
		d := reflect.New(x.t)
		err := sonic.UnmarshalString(x.doc, d.Interface())
		return gen.Dump(d.Elem()) + "|" + errStr(err)
	case "UnmarshalStd":
		d := reflect.New(x.t)
		err := sonic.ConfigStd.UnmarshalFromString(x.doc, d.Interface())
		return gen.Dump(d.Elem()) + "|" + errStr(err)
	case "Pretouch":
		return errStr(sonic.Pretouch(x.t))
	case "Valid":
		return fmt.Sprint(sonic.ValidString(x.doc))
	case "Get":
		n, err := sonic.GetFromString(x.doc, x.path...)
		if err != nil {
			return "ERR " + err.Error()
		}
		raw, _ := n.Raw()
		return raw
	}
	return "?"
}

var c08RoundNo int

var c08KeyRe = regexp.MustCompile(`"[a-z][a-z0-9_]*":`)

// the key of the outer field of a fresh type: unique to it, so another spelling cannot select another field
var c08FreshKeyRe = regexp.MustCompile(`"fresh_field_[0-9]+":`)

func c08Codecs(c *Ctx, i int, r *gen.Rng) {
	// Codec rounds only count the arrivals at the program-cache points; delays are injected there
	// only on request (VERIF_C08_CODEC_DELAYS=1): see DESIGN section 11, "open observation".
	defer hookScheduleOpt(c, i, pcacheHooks, os.Getenv("VERIF_C08_CODEC_DELAYS") == "1")()
	G := r.Range(2, 16)
	K := r.Range(1, 8)
	var calls []*c08Call
	to := gen.TypeOpts{MaxDepth: 3, NoMethods: true, NoRaw: true}
	first := c08RoundNo < 3
	c08RoundNo++
	for k := 0; k < K; k++ {
		var t reflect.Type
		if first && k < 4 {
			// first rounds of the process: the recursive / embedded catalogue types are compiled for the first time under contention
			t = []reflect.Type{reflect.TypeOf(cat.Tree{}), reflect.TypeOf(cat.List{}), reflect.TypeOf(cat.Ping{}), reflect.TypeOf(cat.Embeds{}), reflect.TypeOf(cat.Big{}), reflect.TypeOf(cat.Ifaces{}),
				reflect.TypeOf(cat.MapKeys{}), reflect.TypeOf(cat.Mid{}), reflect.TypeOf(cat.D1{}), reflect.TypeOf(cat.Tags{}), reflect.TypeOf(cat.CaseFold{}), reflect.TypeOf(cat.HasDefPtr{})}[(c08RoundNo*4+k)%12]
		} else {
			// a struct type nobody has seen before: unique field name
			inner := r.Type(&to, 0)
			t = reflect.StructOf([]reflect.StructField{
				{Name: fmt.Sprintf("F%d_%d_%d", c.Batch, i, k), Type: inner, Tag: reflect.StructTag(fmt.Sprintf(`json:"fresh_field_%d"`, k))},
				{Name: "N", Type: reflect.TypeOf(0), Tag: `json:"n,omitempty"`},
				{Name: "S", Type: reflect.TypeOf([]string(nil)), Tag: `json:"s"`},
			})
			if r.Bool() {
				t = reflect.SliceOf(t)
			}
		}
		vo := gen.ValOpts{MaxLen: 3, NilChance: 5}
		v := r.Value(t, &vo, 0)
		docb, err := json.Marshal(v.Interface())
		doc := string(docb)
		if err != nil {
			doc = "{}"
		}
		calls = append(calls,
			&c08Call{kind: "Marshal", t: t, v: v}, &c08Call{kind: "MarshalPtr", t: t, v: v}, &c08Call{kind: "Encode", t: t, v: v, opts: encoder.Options(r.Intn(512)) &^ (encoder.NoQuoteTextMarshaler | encoder.NoValidateJSONMarshaler)},
			&c08Call{kind: "Unmarshal", t: t, doc: doc}, &c08Call{kind: "UnmarshalStd", t: t, doc: doc}, &c08Call{kind: "Pretouch", t: t},
			&c08Call{kind: "Valid", doc: doc}, &c08Call{kind: "Get", doc: doc, path: []interface{}{"fresh_field_0"}}, &c08Call{kind: "Get", doc: doc, path: []interface{}{0, "s"}},
			&c08Call{kind: "Unmarshal", t: reflect.TypeOf((*interface{})(nil)).Elem(), doc: doc})
		// keys that match their fields only case-insensitively (the shared per-type field tables are consulted),
		// documents that fail in the middle of nested containers and invalid UTF-8 under ValidateString
		// (pooled scanner state left behind by one call is picked up by another goroutine)
		docCase := c08KeyRe.ReplaceAllStringFunc(doc, strings.ToUpper)
		docBad := doc[:r.Intn(len(doc)+1)]
		docUTF := strings.Replace(doc, `"`, "\"\xff\xfe", 1)
		iface := reflect.TypeOf((*interface{})(nil)).Elem()
		calls = append(calls,
			&c08Call{kind: "Unmarshal", t: t, doc: docCase}, &c08Call{kind: "UnmarshalStd", t: t, doc: docCase},
			&c08Call{kind: "Unmarshal", t: t, doc: doc, respell: true}, &c08Call{kind: "UnmarshalStd", t: t, doc: doc, respell: true}, &c08Call{kind: "Unmarshal", t: t, doc: doc, respell: true},
			&c08Call{kind: "Valid", doc: docBad}, &c08Call{kind: "Get", doc: docBad, path: []interface{}{"zz", 3}}, &c08Call{kind: "Unmarshal", t: iface, doc: docBad},
			&c08Call{kind: "Valid", doc: `[[[{"a":[[[{"b":[1,`}, &c08Call{kind: "Get", doc: `{"a":{"b":[[[{"c":}`, path: []interface{}{"zz"}},
			&c08Call{kind: "UnmarshalStd", t: iface, doc: docUTF}, &c08Call{kind: "UnmarshalStd", t: t, doc: docUTF},
			&c08Call{kind: "Marshal", t: reflect.TypeOf(""), v: reflect.ValueOf("a\xffb\xc0" + doc)})
	}
	results := make([][]string, G)
	orders := make([][]int, G)
	for g := 0; g < G; g++ {
		o := make([]int, len(calls))
		for k := range o {
			o[k] = k
		}
		for k := len(o) - 1; k > 0; k-- {
			j := r.Intn(k + 1)
			o[k], o[j] = o[j], o[k]
		}
		if g%2 == 0 {
			// half of the goroutines hit the same type at the same moment
			sort.Ints(o)
		}
		orders[g] = o
		results[g] = make([]string, len(calls))
	}
	start := make(chan struct{})
	var wg sync.WaitGroup
	// overlap bookkeeping per call (= per type and entry point), only without the race detector
	// (atomics are synchronisation to it and would mask races between the calls)
	observe := !strings.Contains(c.Mode, "race")
	inflight := make([]int32, len(calls))
	var sameCallOverlaps, firstUseOverlaps int64
	firstDone := make([]int32, len(calls))
	for g := 0; g < G; g++ {
		wg.Add(1)
		go func(g int) {
			defer wg.Done()
			<-start
			for _, k := range orders[g] {
				if observe {
					if atomic.AddInt32(&inflight[k], 1) > 1 {
						atomic.AddInt64(&sameCallOverlaps, 1)
						if atomic.LoadInt32(&firstDone[k]) == 0 {
							atomic.AddInt64(&firstUseOverlaps, 1)
						}
					}
				}
				results[g][k] = calls[k].run()
				if observe {
					atomic.AddInt32(&inflight[k], -1)
					atomic.StoreInt32(&firstDone[k], 1)
				}
			}
		}(g)
	}
	close(start)
	wg.Wait()
	if observe {
		c.Count("codec_calls_overlapping_the_same_call_on_another_goroutine", sameCallOverlaps)
		c.Count("codec_calls_overlapping_before_the_first_such_call_returned(first use / compilation)", firstUseOverlaps)
	}
	// the sequential oracle: the same calls, alone
	for k, cl := range calls {
		want := cl.run()
		for g := 0; g < G; g++ {
			if results[g][k] != want {
				x, y := diffAt(results[g][k], want)
				c.Violate(i, cl.kind, "a call made concurrently returned something else than the same call made alone", map[string]interface{}{"type": trunc(typeDesc(cl.t), 200), "doc": q(cl.doc), "concurrent": x, "alone": y, "goroutines": G})
				break
			}
		}
		if strings.HasPrefix(want, "PANIC") {
			c.Violate(i, cl.kind, "panic: "+trunc(want, 200), map[string]interface{}{"type": trunc(typeDesc(cl.t), 200), "doc": q(cl.doc)})
		}
	}
	c.Count("codec_rounds", 1)
	c.Count("codec_concurrent_calls", int64(G*len(calls)))
	c.Count("codec_fresh_types", int64(K))
}

func typeDesc(t reflect.Type) string {
	if t == nil {
		return ""
	}
	return gen.Describe(t)
}

func runC08(c *Ctx) {
	N := c.N(240, 20000)
	if strings.Contains(c.Mode, "race") {
		N = c.N(36, 6000)
	}
	for i := 0; i < N; i++ {
		if c.Stop(i) {
			return
		}
		if !c.Begin(i) {
			continue
		}
		r := c.Rng(i)
		if i%3 == 0 {
			c.Guard(i, "codec round", func() { c08Codecs(c, i, r) })
		} else {
			c.Guard(i, "cache history", func() { c08Cache(c, i, r) })
		}
		c.Distinct(gen.HashString(fmt.Sprint("C08", c.Batch, i)), true)
	}
}
