package main

import (
	"fmt"
	"reflect"
	"runtime"
	"strconv"
	"strings"
	"sync"
	"sync/atomic"
	"time"

	"github.com/bytedance/sonic"
	"github.com/bytedance/sonic/ast"

	"verifharness/gen"
	"verifharness/ref"
)

// C16: nodes declared concurrently readable really are.
//
// Per case one shared node in its raw (not yet parsed) state - obtained with
// NewRawConcurrentRead, a ConcurrentRead searcher, GetWithOptions(ConcurrentRead),
// or a plain node on which Load/LoadAll has returned - is read by G goroutines
// released by a barrier, each issuing the documented read operations (Get, Index,
// GetByPath, typed accessors, Interface, Map, Array, Raw, MarshalJSON) along
// paths derived from the document, in its own random order. The oracle is the
// single-threaded run: the same operation on a private, identically obtained
// node, computed beforehand. The race-detector build reports unsynchronised
// accesses of the raw->parsed conversion.

func init() {
	workloads["C16"] = runC16
	witnesses["B45"] = func() (bool, string) {
		// a ConcurrentRead node whose located value is malformed at its first level: the failing lazy
		// parse must release the node's mutex (readers used to hang on it)
		doc := `{"k":{"a":[` + strings.Repeat(`1,`, 20000) + `1] "b":1}}`
		for round := 0; round < 40; round++ {
			n, err := sonic.GetWithOptions([]byte(doc), ast.SearchOptions{ConcurrentRead: true}, "k")
			if err != nil {
				return false, "the lenient search no longer locates the malformed value: " + err.Error()
			}
			var wg sync.WaitGroup
			done := make(chan struct{})
			for g := 0; g < 4; g++ {
				wg.Add(1)
				go func() { defer wg.Done(); _ = n.Get("b"); _, _ = n.Raw(); _, _ = n.MarshalJSON() }()
			}
			go func() { wg.Wait(); close(done) }()
			select {
			case <-done:
			case <-time.After(20 * time.Second):
				return true, fmt.Sprintf("round %d: 4 concurrent readers of a malformed ConcurrentRead node did not return within 20 s", round)
			}
		}
		return false, "40 rounds of 4 concurrent readers over a malformed ConcurrentRead node all returned"
	}
}

type c16Op struct {
	path []interface{}
	kind int // which accessor
	step bool
}

const c16Kinds = 9

// c16Locate walks to the addressed node either with GetByPath or step by step.
func c16Locate(root *ast.Node, op *c16Op) *ast.Node {
	if !op.step {
		return root.GetByPath(op.path...)
	}
	cur := root
	for _, st := range op.path {
		switch x := st.(type) {
		case string:
			cur = cur.Get(x)
		case int:
			cur = cur.Index(x)
		}
	}
	return cur
}

func c16Run(root *ast.Node, op *c16Op) (res string) {
	defer func() {
		if r := recover(); r != nil {
			res = fmt.Sprintf("PANIC %v", r)
		}
	}()
	n := c16Locate(root, op)
	if n == nil || !n.Exists() {
		return "absent"
	}
	if err := n.Check(); err != nil {
		return "error " + err.Error()
	}
	switch op.kind {
	case 0:
		raw, err := n.Raw()
		return "raw " + c16Text(raw) + "|" + errStr(err)
	case 1:
		v, err := n.Interface()
		return "iface " + gen.Dump(reflect.ValueOf(&v).Elem()) + "|" + errStr(err)
	case 2:
		js, err := n.MarshalJSON()
		return "json " + c16Text(string(js)) + "|" + errStr(err)
	case 3:
		switch n.TypeSafe() {
		case ast.V_STRING:
			s, err := n.String()
			s2, err2 := n.StrictString()
			return "string " + s + "|" + errStr(err) + "|" + s2 + "|" + errStr(err2)
		case ast.V_NUMBER:
			f, err := n.Float64()
			i, err2 := n.Int64()
			num, err3 := n.Number()
			return fmt.Sprintf("number %x|%s|%d|%s|%s|%s", f, errStr(err), i, errStr(err2), num, errStr(err3))
		case ast.V_TRUE, ast.V_FALSE:
			b, err := n.Bool()
			return fmt.Sprintf("bool %v|%s", b, errStr(err))
		case ast.V_NULL:
			return "null"
		default:
			s, err := n.String()
			return "string-of-container " + s + "|" + errStr(err)
		}
	case 4:
		m, err := n.Map()
		return "map " + gen.Dump(reflect.ValueOf(m)) + "|" + errStr(err)
	case 5:
		a, err := n.Array()
		return "array " + gen.Dump(reflect.ValueOf(a)) + "|" + errStr(err)
	case 6:
		v, err := n.InterfaceUseNumber()
		return "ifacenum " + gen.Dump(reflect.ValueOf(&v).Elem()) + "|" + errStr(err)
	case 7:
		return "type " + strconv.Itoa(int(n.TypeSafe())) + " valid=" + strconv.FormatBool(n.Valid())
	default:
		// a child by position, then its raw text
		ch := n.Index(0)
		if ch == nil || !ch.Exists() {
			return "no-child"
		}
		raw, err := ch.Raw()
		return "child " + c16Text(raw) + "|" + errStr(err)
	}
}

// c16Text reduces a JSON text to its token stream: whether a node still answers
// with the source text (white space, escapes as written) or with its re-encoded
// form depends on whether some reader has parsed it already, which is not an
// observable of this property (same tolerance as C14).
func c16Text(s string) string {
	if t, ok := tokensOf([]byte(s)); ok {
		return strings.Join(t, "\x00")
	}
	return "NOT-JSON " + s
}

// c16Node obtains a node the documentation declares concurrently readable.
func c16Node(variant int, doc string, path []interface{}) (ast.Node, error) {
	switch variant {
	case 0:
		n := ast.NewRawConcurrentRead(doc)
		if len(path) > 0 {
			p := n.GetByPath(path...)
			if p == nil || !p.Exists() {
				return ast.Node{}, fmt.Errorf("absent")
			}
			return *p, p.Check()
		}
		return n, n.Check()
	case 1:
		s := ast.NewSearcher(doc)
		s.ConcurrentRead = true
		return s.GetByPath(path...)
	case 2:
		return sonic.GetWithOptions([]byte(doc), ast.SearchOptions{ConcurrentRead: true, CopyReturn: true, ValidateJSON: true}, path...)
	case 3:
		n, err := sonic.GetFromString(doc, path...)
		if err != nil {
			return n, err
		}
		return n, n.LoadAll()
	case 5:
		// the lenient search (no ValidateJSON): what it locates may turn out to be malformed when it is parsed
		return sonic.GetWithOptions([]byte(doc), ast.SearchOptions{ConcurrentRead: true}, path...)
	case 6, 7:
		// a plain search result that was already read a little (single-threaded) before Load()/LoadAll():
		// some children are parsed, some lazy, some raw at the moment of the call
		n, err := sonic.GetFromString(doc, path...)
		if err != nil {
			return n, err
		}
		c16Touch(&n, 0)
		if variant == 6 {
			return n, n.Load()
		}
		return n, n.LoadAll()
	default:
		n, err := sonic.GetFromString(doc, path...)
		if err != nil {
			return n, err
		}
		return n, n.Load()
	}
}

var c16Variants = []string{"NewRawConcurrentRead", "Searcher{ConcurrentRead}", "GetWithOptions(ConcurrentRead)", "LoadAll() returned", "Load() returned", "GetWithOptions(ConcurrentRead) value malformed at its first level", "partly read, then Load() returned", "partly read, then LoadAll() returned"}

func c16Doc(r *gen.Rng) string {
	o := gen.DefaultDoc
	o.MaxDepth = r.Range(1, 5)
	switch r.Intn(6) {
	case 0: // wide object on both sides of the 16-pair index threshold, escaped keys
		var sb strings.Builder
		sb.WriteString("{")
		n := r.Range(1, 60)
		for j := 0; j < n; j++ {
			if j > 0 {
				sb.WriteString(",")
			}
			key := fmt.Sprintf("key%d", j)
			if r.Chance(1, 4) {
				// the same kind of key spelled with an escape sequence
				key = fmt.Sprintf("k\\"+"u0065y%d", j)
			}
			fmt.Fprintf(&sb, `"%s":%s`, key, []string{r.SimpleNumber(), r.ValidString(8), `{"a":[1,{"b":2}]}`, `[true,null,"x"]`}[r.Intn(4)])
		}
		sb.WriteString("}")
		return sb.String()
	case 1: // scalars
		return []string{"true", "false", "null", `"str\n"`, "12.5e3", "-7", `""`}[r.Intn(7)]
	case 2:
		var sb strings.Builder
		sb.WriteString("[")
		n := r.Range(1, 40)
		for j := 0; j < n; j++ {
			if j > 0 {
				sb.WriteString(",")
			}
			sb.WriteString([]string{r.SimpleNumber(), r.ValidString(12), `{"k":{"z":[[],{}]}}`, `[[1,2],[3]]`}[r.Intn(4)])
		}
		sb.WriteString("]")
		return sb.String()
	default:
		return r.Doc(&o)
	}
}

var c16Deadlocked bool

// c16Touch reads a few children of a node the way a single-threaded user would before
// sharing it: first, middle and last member, one level further down for the first.
func c16Touch(n *ast.Node, depth int) {
	if depth > 2 {
		return
	}
	switch n.TypeSafe() {
	case ast.V_OBJECT:
		if p := n.IndexPair(0); p != nil {
			c16Touch(&p.Value, depth+1)
		}
		n.Get("key3")
		n.Get("b")
	case ast.V_ARRAY:
		if c := n.Index(0); c != nil {
			c16Touch(c, depth+1)
		}
		n.Index(2)
	}
}

func c16Case(c *Ctx, i int, r *gen.Rng) {
	doc := c16Doc(r)
	tree, ok := ref.Parse(doc)
	if !ok {
		c.Note(i, "inconclusive: generator produced an invalid document", q(doc))
		return
	}
	variant := []int{0, 1, 2, 3, 4, 6, 7}[r.Intn(7)]
	var base []interface{}
	if r.Chance(1, 3) {
		base = randomPath(r, tree)
	}
	sub := tree.Lookup(base)
	if sub == nil {
		base, sub = nil, tree
	}
	if r.Chance(1, 6) && !c16Deadlocked && (sub.Kind == ref.Obj || sub.Kind == ref.Arr) && len(sub.Elems) >= 2 {
		// a shared node whose text is malformed at its first level (a separator between two members is
		// missing; brackets still match, so the lenient search locates it): the readers must all get
		// the error the single-threaded run gets, and none of them may be left waiting
		j := r.Intn(len(sub.Elems) - 1)
		if k := strings.IndexByte(doc[sub.Elems[j].End:sub.End], ','); k >= 0 {
			k += sub.Elems[j].End
			text := doc[sub.Start:k] + " " + doc[k+1:sub.End]
			if r.Chance(1, 2) {
				// a long first member: the failing parse holds the node's lock for a while
				filler := "[" + strings.Repeat("1,", r.Range(2000, 30000)) + "1]"
				if sub.Kind == ref.Obj {
					text = `{"filler":` + filler + "," + text[1:]
				} else {
					text = "[" + filler + "," + text[1:]
				}
			}
			doc = `{"k":` + text + "}"
			base = []interface{}{"k"}
			variant = 5
		}
	}
	// operations: paths relative to the shared node
	var ops []*c16Op
	for _, p := range c14Paths(r, sub) {
		for k := 0; k < 3; k++ {
			ops = append(ops, &c16Op{path: p, kind: r.Intn(c16Kinds), step: r.Bool()})
		}
	}
	ops = append(ops, &c16Op{kind: 0}, &c16Op{kind: 1}, &c16Op{kind: 2}, &c16Op{kind: 3}, &c16Op{kind: 8})
	// the single-threaded run, every operation on a node of its own
	want := make([]string, len(ops))
	for k, op := range ops {
		n, err := c16Node(variant, doc, base)
		if err != nil {
			c.Note(i, "inconclusive: cannot obtain the node", map[string]string{"doc": q(doc), "err": errStr(err)})
			return
		}
		want[k] = c16Run(&n, op)
	}
	// A malformed node has two legitimate faces: its raw text as long as nobody has parsed it, and the
	// syntax error afterwards; which one a read meets depends on what the other readers did before.
	// Second oracle for those nodes: the same operation after the (failing) parse has happened.
	var want2 []string
	if variant == 5 {
		want2 = make([]string, len(ops))
		for k, op := range ops {
			n, err := c16Node(variant, doc, base)
			if err != nil {
				return
			}
			n.Get("")
			n.Index(0)
			want2[k] = c16Run(&n, op)
		}
	}
	shared, err := c16Node(variant, doc, base)
	if err != nil {
		return
	}
	defer hookSchedule(c, i, astHooks)()
	G := r.Range(2, 12)
	got := make([][]string, G)
	orders := make([][]int, G)
	for g := 0; g < G; g++ {
		o := make([]int, len(ops))
		for k := range o {
			o[k] = k
		}
		if g%3 != 0 {
			for k := len(o) - 1; k > 0; k-- {
				j := r.Intn(k + 1)
				o[k], o[j] = o[j], o[k]
			}
		}
		orders[g] = o
		got[g] = make([]string, len(ops))
	}
	yield := r.Bool()
	start := make(chan struct{})
	var wg sync.WaitGroup
	// Overlap bookkeeping (evidence of what was actually interleaved). Only in builds without the
	// race detector: atomic operations are synchronisation to the detector and would order the
	// readers' accesses, hiding the very races it is there to report.
	observe := c.Mode != "race"
	var inflight, overlapped, done, firstBeforeAnyDone int32
	for g := 0; g < G; g++ {
		wg.Add(1)
		go func(g int) {
			defer wg.Done()
			<-start
			for n, k := range orders[g] {
				if observe {
					if atomic.AddInt32(&inflight, 1) > 1 {
						atomic.AddInt32(&overlapped, 1)
					}
					if n == 0 && atomic.LoadInt32(&done) == 0 {
						atomic.AddInt32(&firstBeforeAnyDone, 1)
					}
				}
				got[g][k] = c16Run(&shared, ops[k])
				if observe {
					atomic.AddInt32(&inflight, -1)
					atomic.AddInt32(&done, 1)
				}
				if yield {
					runtime.Gosched()
				}
			}
		}(g)
	}
	close(start)
	finished := make(chan struct{})
	go func() { wg.Wait(); close(finished) }()
	select {
	case <-finished:
	case <-time.After(60 * time.Second):
		// Not a timing verdict: the readers' stacks decide. If every goroutine that is still inside
		// the node's code is parked on the node's mutex, nobody can ever release it.
		buf := make([]byte, 4<<20)
		buf = buf[:runtime.Stack(buf, true)]
		parked, running := 0, 0
		for _, g := range strings.Split(string(buf), "\n\n") {
			if !strings.Contains(g, "sonic/ast.(*Node)") || !strings.Contains(g, "main.c16Case") {
				continue
			}
			if strings.Contains(g, "sync.(*RWMutex)") && (strings.Contains(g, "[sync.RWMutex") || strings.Contains(g, "semacquire") || strings.Contains(g, "[sync.Mutex")) {
				parked++
			} else {
				running++
			}
		}
		d := map[string]interface{}{"doc": q(doc), "base": pathStr(base), "goroutines": G, "readers_parked_on_the_node_mutex": parked, "readers_still_running": running, "stacks": trunc(string(buf), 5000)}
		c16Deadlocked = true // one witness per process is enough: every further one costs the full wait
		if parked > 0 && running == 0 {
			c.Violate(i, "ast.Node/"+c16Variants[variant], "deadlock: concurrent readers are parked on the node's mutex and nobody holds it", d)
		} else {
			c.Note(i, "inconclusive: concurrent readers did not finish within 60 s but some are still running", d)
		}
		return
	}
	if observe {
		c.Count("reads_that_overlapped_another_read_of_the_same_node", int64(overlapped))
		if firstBeforeAnyDone >= 2 {
			c.Count("nodes_whose_first_reads_by_2+_goroutines_started_before_any_read_finished", 1)
		}
	}
	for k, op := range ops {
		for g := 0; g < G; g++ {
			if got[g][k] != want[k] && !(want2 != nil && (got[g][k] == want2[k] || strings.Contains(got[g][k], "Syntax error"))) {
				// (a malformed node: besides its two faces, a read that started on the raw text may
				// report the node's syntax error once another reader's parse has failed)
				x, y := diffAt(got[g][k], want[k])
				c.Violate(i, "ast.Node/"+c16Variants[variant], "a concurrent read returned something else than the single-threaded run", map[string]interface{}{"doc": q(doc), "base": pathStr(base), "path": pathStr(op.path), "accessor": op.kind, "stepwise": op.step, "goroutines": G, "concurrent": x, "alone": y})
				break
			}
		}
		if strings.HasPrefix(want[k], "PANIC") {
			c.Violate(i, "ast.Node/"+c16Variants[variant], "panic: "+trunc(want[k], 200), map[string]interface{}{"doc": q(doc), "path": pathStr(op.path), "accessor": op.kind})
		}
	}
	c.Count("shared_nodes_"+c16Variants[variant], 1)
	c.Count("concurrent_reads", int64(G*len(ops)))
	c.Distinct(gen.HashString(doc+pathStr(base)+fmt.Sprint(variant)), len(doc) > 1)
}

func runC16(c *Ctx) {
	N := c.N(2500, 150000)
	if strings.Contains(c.Mode, "race") {
		N = c.N(400, 30000)
	}
	for i := 0; i < N; i++ {
		if c.Stop(i) {
			return
		}
		if !c.Begin(i) {
			continue
		}
		r := c.Rng(i)
		c.Guard(i, "case", func() { c16Case(c, i, r) })
	}
}
