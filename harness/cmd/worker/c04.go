package main

import (
	"encoding/json"
	"fmt"
	"math"
	"reflect"
	"strings"
	"unicode/utf8"

	"github.com/bytedance/sonic"
	"github.com/bytedance/sonic/encoder"

	"verifharness/cat"
	"verifharness/gen"
	"verifharness/ref"
)

func init() {
	workloads["C04"] = runC04
}

// pure types: no methods anywhere, so that decode(encode(v)) must give v back
var c04PureTypes = gen.TypeOpts{MaxDepth: 4, NoMethods: true, NoRaw: true}

// nilEqEmpty normalises a canonical dump so that nil and empty containers compare equal.
var nilEqEmpty = strings.NewReplacer("nil[]", "[]", "nil-map", "map{}", "bytes()", "[]")

func hasNaN(v reflect.Value, depth int) bool {
	if depth > 40 {
		return false
	}
	switch v.Kind() {
	case reflect.Float32, reflect.Float64:
		f := v.Float()
		return f != f || math.IsInf(f, 0)
	case reflect.Ptr, reflect.Interface:
		return !v.IsNil() && hasNaN(v.Elem(), depth+1)
	case reflect.Slice, reflect.Array:
		for i := 0; i < v.Len(); i++ {
			if hasNaN(v.Index(i), depth+1) {
				return true
			}
		}
	case reflect.Map:
		for _, k := range v.MapKeys() {
			if hasNaN(k, depth+1) || hasNaN(v.MapIndex(k), depth+1) {
				return true
			}
		}
	case reflect.Struct:
		for i := 0; i < v.NumField(); i++ {
			if hasNaN(v.Field(i), depth+1) {
				return true
			}
		}
	}
	return false
}

// fillNilContainers replaces every reachable nil slice/map by an empty one.
func fillNilContainers(v reflect.Value, depth int) {
	if depth > 40 {
		return
	}
	switch v.Kind() {
	case reflect.Slice:
		if v.IsNil() && v.CanSet() {
			v.Set(reflect.MakeSlice(v.Type(), 0, 0))
		}
		for i := 0; i < v.Len(); i++ {
			fillNilContainers(v.Index(i), depth+1)
		}
	case reflect.Array:
		for i := 0; i < v.Len(); i++ {
			fillNilContainers(v.Index(i), depth+1)
		}
	case reflect.Map:
		if v.IsNil() {
			if v.CanSet() {
				v.Set(reflect.MakeMap(v.Type()))
			}
			return
		}
		for _, k := range v.MapKeys() {
			e := reflect.New(v.Type().Elem()).Elem()
			e.Set(v.MapIndex(k))
			fillNilContainers(e, depth+1)
			v.SetMapIndex(k, e)
		}
	case reflect.Ptr:
		if !v.IsNil() {
			fillNilContainers(v.Elem(), depth+1)
		}
	case reflect.Interface:
		if !v.IsNil() && v.CanSet() {
			e := reflect.New(v.Elem().Type()).Elem()
			e.Set(v.Elem())
			fillNilContainers(e, depth+1)
			v.Set(e)
		}
	case reflect.Struct:
		for i := 0; i < v.NumField(); i++ {
			if v.Type().Field(i).PkgPath == "" || v.Type().Field(i).Anonymous {
				fillNilContainers(v.Field(i), depth+1)
			}
		}
	}
}

// diffAt returns short excerpts of a and b around their first difference.
func diffAt(a, b string) (string, string) {
	p := 0
	for p < len(a) && p < len(b) && a[p] == b[p] {
		p++
	}
	from := p - 50
	if from < 0 {
		from = 0
	}
	return fmt.Sprintf("@%d: %s", from, trunc(a[from:], 160)), fmt.Sprintf("@%d: %s", from, trunc(b[from:], 160))
}

// cyclic values and other values without a JSON representation
type c04Node struct {
	Next *c04Node
	Any  interface{}
	M    map[string]interface{}
}

func c04NoRepr(k int) (interface{}, string) {
	switch k % 9 {
	case 0:
		n := &c04Node{}
		n.Next = n
		return n, "pointer cycle"
	case 1:
		m := map[string]interface{}{}
		m["self"] = m
		return m, "map containing itself"
	case 2:
		s := make([]interface{}, 1)
		s[0] = s
		return s, "slice containing itself"
	case 3:
		a, b := &c04Node{}, &c04Node{}
		a.Any, b.Any = b, a
		return []*c04Node{a}, "cycle through interface fields"
	case 4:
		return map[string]interface{}{"c": make(chan int)}, "chan in interface"
	case 5:
		return []interface{}{func() {}}, "func in interface"
	case 6:
		return struct{ C complex64 }{1}, "complex field"
	case 7:
		return json.Number("12x"), "invalid json.Number"
	}
	return map[string]json.Number{"k": "--1"}, "invalid json.Number in map"
}

func runC04(c *Ctx) {
	idx := 0
	next := func() (int, bool, bool) {
		i := idx
		idx++
		if c.Stop(i) {
			return i, false, true
		}
		return i, c.Begin(i), false
	}
	// Part 1: every option set against values without a JSON representation
	for set := 0; set < 512; set++ {
		if !c.Mine(set) {
			continue
		}
		i, run, stop := next()
		if stop {
			return
		}
		if !run {
			continue
		}
		var opts encoder.Options
		for k, b := range encOptBits {
			if set&(1<<uint(k)) != 0 {
				opts |= b
			}
		}
		v, what := c04NoRepr(set / 3)
		var out []byte
		var err error
		if c.Guard(i, "encoder.Encode", func() { out, err = encoder.Encode(v, opts) }) {
			continue
		}
		if err == nil {
			c.Violate(i, "encoder.Encode", "a value without a JSON representation was encoded without error", map[string]interface{}{"what": what, "opts": optName(opts), "out": q(string(out))})
		}
		c.Count("no_representation_cases", 1)
		c.Distinct(gen.HashString(what+optName(opts)), true)
	}
	// Part 2: option sets x values
	N := c.N(3000, 150000)
	for k := 0; k < N; k++ {
		i, run, stop := next()
		if stop {
			return
		}
		if !run {
			continue
		}
		r := c.Rng(i)
		set := (k*16 + c.Batch) % 512 // every option set is visited by every 512/16 consecutive cases of the 16 batches
		if c.NBatch != 16 {
			set = r.Intn(512)
		}
		var opts encoder.Options
		for b, bit := range encOptBits {
			if set&(1<<uint(b)) != 0 {
				opts |= bit
			}
		}
		c04One(c, i, r, opts)
		c.Count("optionset_visits", 1)
	}
}

func c04One(c *Ctx, i int, r *gen.Rng, opts encoder.Options) {
	mode := r.Intn(10)
	var t reflect.Type
	vo := gen.ValOpts{MaxLen: 5, NilChance: 5, BigStrings: true, BigSlices: true}
	label := ""
	switch {
	case mode < 6: // pure type, round trip expected
		t = r.Type(&c04PureTypes, 0)
		label = "pure"
		if r.Chance(1, 6) {
			vo.NaN = true
			label = "pure+nan"
		}
	case mode < 8: // pure type with invalid UTF-8
		t = r.Type(&c04PureTypes, 0)
		vo.BadUTF8 = true
		label = "pure+badutf8"
	default: // catalogue types incl. marshalers with invalid output: well-formedness only
		t = r.Type(&c03TypeOpts, 0)
		vo.Catalogue = encCat
		vo.IfaceTyped = true
		vo.BadNumber = r.Chance(1, 3)
		vo.BadUTF8 = r.Bool()
		label = "catalogue"
	}
	v := r.Value(t, &vo, 0)
	desc := gen.Describe(t)
	detail := func() map[string]interface{} {
		return map[string]interface{}{"type": trunc(desc, 600), "opts": optName(opts), "label": label, "value": trunc(gen.Dump(v), 400)}
	}
	c.Vf("TYPE %s\nOPTS %s LABEL %s\nVALUE %s", desc, optName(opts), label, trunc(gen.Dump(v), 3000))
	var out []byte
	var err error
	if c.Guard(i, "encoder.Encode", func() { out, err = encoder.Encode(v.Interface(), opts) }) {
		return
	}
	c.Distinct(gen.HashString(desc+optName(opts)+gen.Dump(v)), true)
	c.Count("label_"+label, 1)
	c.Sample(label, 1, map[string]string{"type": trunc(desc, 160), "opts": optName(opts)})
	// encoding/json tells whether a NaN/Inf is *reachable* by the encoder (a float in
	// an ignored or unexported field is not)
	_, jerr0 := json.Marshal(v.Interface())
	_, nanReach := jerr0.(*json.UnsupportedValueError)
	nan := nanReach && hasNaN(v, 0)
	if err != nil {
		c.Count("encode_errors", 1)
		// the only legitimate reasons for an error with these generators
		jerr := jerr0
		if jerr == nil && !(nan && opts&encoder.EncodeNullForInfOrNan == 0) {
			// encoding/json encodes it: sonic must too, unless validation of marshaler output is the reason
			if label != "catalogue" {
				d := detail()
				d["err"] = errStr(err)
				c.Violate(i, "encoder.Encode", "error for a value that has a JSON representation", d)
			}
		}
		return
	}
	c.Vf("OUT %q", trunc(string(out), 3000))
	if nan && opts&encoder.EncodeNullForInfOrNan == 0 {
		d := detail()
		d["out"] = q(string(out))
		c.Violate(i, "encoder.Encode", "NaN/Inf encoded without EncodeNullForInfOrNan", d)
		return
	}
	// --- well-formedness: exactly one JSON value, no trailing bytes
	byDesign := false
	if label == "catalogue" {
		// NoQuoteTextMarshaler emits TextMarshaler output unquoted and NoValidateJSONMarshaler
		// passes invalid Marshaler output through: both are documented ways to get
		// non-JSON text, so such outputs are not judged
		byDesign = opts&(encoder.NoQuoteTextMarshaler|encoder.NoValidateJSONMarshaler) != 0
	}
	tree, ok := ref.Parse(string(out))
	if !byDesign {
		if !ok || !json.Valid(out) {
			d := detail()
			d["out"] = q(string(out))
			c.Violate(i, "encoder.Encode", "output is not exactly one well-formed JSON value", d)
			return
		}
		if strings.TrimRight(string(out), " \t\r\n") != string(out) || strings.TrimLeft(string(out), " \t\r\n") != string(out) {
			c.Violate(i, "encoder.Encode", "output has leading/trailing white space", detail())
		}
		if opts&encoder.ValidateString != 0 && !utf8.Valid(out) {
			d := detail()
			d["out"] = q(string(out))
			c.Violate(i, "encoder.Encode", "ValidateString output is not valid UTF-8", d)
		}
		if opts&encoder.EscapeHTML != 0 && strings.ContainsAny(string(out), "<>&") {
			d := detail()
			d["out"] = q(string(out))
			c.Violate(i, "encoder.Encode", "EscapeHTML output contains a raw <, > or &", d)
		}
	}
	_ = tree
	// --- round trip (pure types, valid UTF-8, finite floats)
	if label != "pure" || nan {
		return
	}
	// what the round trip should give: encoding/json's own round trip of the value —
	// of the value with nil slices/maps made empty when NoNullSliceOrMap is on
	ev := reflect.New(t).Elem()
	ev.Set(v)
	if opts&encoder.NoNullSliceOrMap != 0 {
		fillNilContainers(ev, 0)
	}
	jout, jerr := json.Marshal(ev.Interface())
	if jerr != nil {
		return
	}
	exp := reflect.New(t)
	if e := json.Unmarshal(jout, exp.Interface()); e != nil {
		return // encoding/json cannot read its own output for this type (e.g. a field named by an invalid tag)
	}
	want := nilEqEmpty.Replace(gen.Dump(exp.Elem()))
	got1 := reflect.New(t)
	if e := json.Unmarshal(out, got1.Interface()); e != nil {
		d := detail()
		d["out"], d["err"] = q(string(out)), errStr(e)
		c.Violate(i, "Encode+encoding/json.Unmarshal", "encoding/json cannot decode the output back into the type", d)
		return
	}
	if g := nilEqEmpty.Replace(gen.Dump(got1.Elem())); g != want {
		d := detail()
		d["out"] = q(string(out))
		d["got"], d["want"] = diffAt(g, want)
		c.Violate(i, "Encode+encoding/json.Unmarshal", "round trip through encoding/json changes the value", d)
		return
	}
	got2 := reflect.New(t)
	if e := sonic.Unmarshal(out, got2.Interface()); e != nil {
		d := detail()
		d["out"], d["err"] = q(string(out)), errStr(e)
		c.Violate(i, "Encode+sonic.Unmarshal", "sonic cannot decode its own output back into the type", d)
		return
	}
	if g := nilEqEmpty.Replace(gen.Dump(got2.Elem())); g != want {
		if negZeroTok.MatchString(string(out)) {
			norm := strings.NewReplacer("f64(0x8000000000000000)", "f64(0x0)", "f32(0x80000000)", "f32(0x0)")
			if norm.Replace(g) == norm.Replace(want) {
				c.Known("B24", i, "Encode+sonic.Unmarshal", "literal -0 decodes to +0", q(string(out)))
				return
			}
		}
		d := detail()
		d["out"] = q(string(out))
		d["got"], d["want"] = diffAt(g, want)
		c.Violate(i, "Encode+sonic.Unmarshal", "round trip through sonic changes the value", d)
		return
	}
	c.Count("round_trips_ok", 1)
	_ = cat.All
	_ = fmt.Sprint
}
