package main

import (
	"unicode/utf8"
	"encoding/json"
	"fmt"
	"reflect"
	"regexp"
	"strconv"
	"strings"

	"github.com/bytedance/sonic"
	"github.com/bytedance/sonic/ast"
	"github.com/bytedance/sonic/decoder"
	"github.com/bytedance/sonic/encoder"
	"github.com/bytedance/sonic/unquote"
	sutf8 "github.com/bytedance/sonic/utf8"

	"verifharness/gen"
	"verifharness/place"
)

// C05: the same bytes give the same result wherever they lie. Every input is
// run through every byte-consuming entry point (a) as an ordinary heap string,
// (b) ending exactly at an inaccessible page, (c) starting exactly after an
// inaccessible page, (d) at several offsets from a 64-byte boundary followed
// by bytes that would change the result if they were read. The transcripts
// (per-API outcome: error class, position, message, value digest) must be
// identical; a read outside the input in (b)/(c) is a fault that kills the
// worker, which the orchestrator reports with the case that was running.

func init() {
	workloads["C05"] = runC05
	// both witnesses die with a fault while the finding is open (the orchestrator takes the death as reproduction)
	witnesses["B42"] = func() (bool, string) {
		a := place.NewArena()
		var v interface{}
		err := sonic.UnmarshalString(place.Str(a.BeforeGuard([]byte("[1,0"), 0, 0)), &v)
		return false, fmt.Sprintf("UnmarshalString of \"[1,0\" ending at an inaccessible page returned (err=%v) without a fault", err != nil)
	}
	witnesses["B43"] = func() (bool, string) {
		a := place.NewArena()
		ok := sonic.ValidString(place.Str(a.BeforeGuard([]byte("t"), 0, 0)))
		return false, fmt.Sprintf("ValidString of \"t\" ending at an inaccessible page returned %v without a fault", ok)
	}
}

// the last token of the input is the number 0 / -0 and nothing follows it (finding B42)
var c05LastTokenZero = regexp.MustCompile(`(^|[^0-9.eE+\-])-?0$`)

func errFull(err error) string {
	if err == nil {
		return "ok"
	}
	return errClass(err) + "#" + h64(err.Error())
}

type c05seg struct{ name, val string }

type c05T struct {
	segs []c05seg
	c    *Ctx
}

func (t *c05T) add(name, f string, a ...interface{}) {
	t.segs = append(t.segs, c05seg{name, fmt.Sprintf(f, a...)})
	if c05Primer != "" {
		// leave other bytes behind in the pooled buffers and scanner states before the next entry point runs
		var v interface{}
		sonic.ConfigStd.UnmarshalFromString(c05Primer, &v)
		sonic.UnmarshalString(c05Primer, &v)
		sonic.ValidString(c05Primer[:len(c05Primer)/2])
	}
}

// c05Primer: when set, a document decoded between all entry points of a transcript ("pool history").
var c05Primer string

var c05Primers = []string{
	"[" + strings.Repeat("12345678,", 150) + "9,\"\xff\"]",
	"{\"k\":\"" + strings.Repeat("}]", 700) + "\xff\",\"z\":[[[[{}]]]]}",
}

// c05Doc: document-consuming entry points, called on the placed bytes themselves.
func c05Doc(t *c05T, data []byte) {
	s := place.Str(data)
	t.add("ValidString", "%v", sonic.ValidString(s))
	t.add("Valid", "%v", sonic.Valid(data))
	{
		var v interface{}
		err := sonic.UnmarshalString(s, &v)
		t.add("UnmarshalString(iface)", "%s:%s", errFull(err), h64(gen.Dump(reflect.ValueOf(&v).Elem())))
	}
	{
		var v interface{}
		err := sonic.ConfigStd.UnmarshalFromString(s, &v)
		t.add("ConfigStd(iface)", "%s:%s", errFull(err), h64(gen.Dump(reflect.ValueOf(&v).Elem())))
	}
	{
		var v interface{}
		err := cfgUseNumber.UnmarshalFromString(s, &v)
		t.add("UseNumber(iface)", "%s:%s", errFull(err), h64(gen.Dump(reflect.ValueOf(&v).Elem())))
	}
	{
		var st c02Struct
		err := sonic.UnmarshalString(s, &st)
		t.add("UnmarshalString(struct)", "%s:%s", errFull(err), h64(gen.Dump(reflect.ValueOf(st))))
	}
	{
		var st c02Struct
		d := decoder.NewDecoder(s)
		d.DisallowUnknownFields()
		err := d.Decode(&st)
		t.add("Decoder(DisallowUnknown)", "%s:%s", errFull(err), h64(gen.Dump(reflect.ValueOf(st))))
	}
	{
		var rm json.RawMessage
		err := sonic.UnmarshalString(s, &rm)
		t.add("UnmarshalString(raw)", "%s:%s", errFull(err), h64(string(rm)))
	}
	{
		var m map[string]string
		err := sonic.UnmarshalString(s, &m)
		t.add("UnmarshalString(map)", "%s:%s", errFull(err), h64(gen.Dump(reflect.ValueOf(m))))
	}
	{
		var a []float64
		err := sonic.UnmarshalString(s, &a)
		t.add("UnmarshalString([]f64)", "%s:%s", errFull(err), h64(gen.Dump(reflect.ValueOf(a))))
	}
	{
		var a []int64
		err := sonic.UnmarshalString(s, &a)
		t.add("UnmarshalString([]i64)", "%s:%s", errFull(err), h64(gen.Dump(reflect.ValueOf(a))))
	}
	{
		// scalar destinations with their own opcodes: json.Number (also quoted), numbers given as strings,
		// bool, and a struct that holds them
		var n json.Number
		err := sonic.UnmarshalString(s, &n)
		t.add("UnmarshalString(json.Number)", "%s:%s", errFull(err), h64(string(n)))
		var ns []json.Number
		err = sonic.UnmarshalString(s, &ns)
		t.add("UnmarshalString([]json.Number)", "%s:%s", errFull(err), h64(gen.Dump(reflect.ValueOf(ns))))
		var b bool
		err = sonic.UnmarshalString(s, &b)
		t.add("UnmarshalString(bool)", "%s:%v", errFull(err), b)
		var f float32
		err = sonic.UnmarshalString(s, &f)
		t.add("UnmarshalString(float32)", "%s:%v", errFull(err), f)
		var u uint8
		err = sonic.UnmarshalString(s, &u)
		t.add("UnmarshalString(uint8)", "%s:%v", errFull(err), u)
		var q struct {
			A json.Number `json:"a"`
			I int         `json:"i,string"`
			F float64     `json:"f,string"`
			S string      `json:"s,string"`
			N json.Number `json:"n,string"`
			B bool        `json:"b,string"`
		}
		err = sonic.UnmarshalString(s, &q)
		t.add("UnmarshalString(struct of ,string fields)", "%s:%s", errFull(err), h64(gen.Dump(reflect.ValueOf(q))))
		var mi map[int]json.Number
		err = sonic.UnmarshalString(s, &mi)
		t.add("UnmarshalString(map[int]json.Number)", "%s:%s", errFull(err), h64(gen.Dump(reflect.ValueOf(mi))))
	}
	{
		var a string
		err := sonic.UnmarshalString(s, &a)
		t.add("UnmarshalString(string)", "%s:%s", errFull(err), h64(a))
	}
	{
		var a []byte
		err := sonic.UnmarshalString(s, &a)
		t.add("UnmarshalString(bytes)", "%s:%s", errFull(err), h64(string(a)))
	}
	{
		st, e := decoder.Skip(data)
		t.add("Skip", "%d,%d", st, e)
	}
	for _, path := range [][]interface{}{nil, {"a"}, {0}, {"k", 1}, {"z", 1, "q"}, {"want"}, {2}} {
		n, err := sonic.GetFromString(s, path...)
		if err != nil {
			t.add(fmt.Sprintf("GetFromString%v", path), "%s", h64(err.Error()))
		} else {
			raw, _ := n.Raw()
			x, ierr := n.Interface()
			t.add(fmt.Sprintf("GetFromString%v", path), "%s/%v/%s", h64(raw), ierr != nil, h64(fmt.Sprint(x)))
		}
		n2, err := sonic.Get(data, path...)
		if err != nil {
			t.add(fmt.Sprintf("Get%v", path), "%s", h64(err.Error()))
		} else {
			raw, _ := n2.Raw()
			t.add(fmt.Sprintf("Get%v", path), "%s", h64(raw))
		}
	}
	{
		nd := ast.NewRaw(s)
		ok := nd.Check() == nil
		t.add("NewRaw", "%v", ok)
		if ok {
			lerr := nd.LoadAll()
			js, merr := nd.MarshalJSON()
			t.add("LoadAll", "%v/%v/%s", lerr != nil, merr != nil, h64(string(js)))
		}
	}
	{
		p := ast.NewSearcher(s)
		n, err := p.GetByPath("k", 1)
		raw, _ := n.Raw()
		t.add("Searcher", "%v:%s", err != nil, h64(raw))
	}
	{
		root, err := sonic.GetFromString(s)
		if err == nil {
			n := 0
			root.ForEach(func(path ast.Sequence, node *ast.Node) bool { n++; return n < 50 })
			a, _ := root.Get("a").Raw()
			b, _ := root.Index(1).Raw()
			t.add("Node walk", "%d:%s:%s", n, h64(a), h64(b))
		}
	}
	{
		vis := &recVisitor{}
		perr := ast.Preorder(s, vis, nil)
		t.add("Preorder", "%v:%s", perr != nil, h64(vis.sb.String()))
	}
	{
		// the document as a value to *encode*: RawMessage / Number are validated and copied by native code
		o, err := sonic.Marshal(json.RawMessage(data))
		t.add("Marshal(RawMessage)", "%v:%s", err != nil, h64(string(o)))
		o, err = sonic.ConfigStd.Marshal(json.RawMessage(data))
		t.add("ConfigStd.Marshal(RawMessage)", "%v:%s", err != nil, h64(string(o)))
		o, err = sonic.Marshal(json.Number(s))
		t.add("Marshal(Number)", "%v:%s", err != nil, h64(string(o)))
	}
}

// c05Str: string routines on the placed bytes themselves.
func c05Str(t *c05T, data []byte) {
	s := place.Str(data)
	t.add("Quote", "%s", h64(encoder.Quote(s)))
	u, perr := unquote.String(s)
	t.add("unquote.String", "%d:%s", int(perr), h64(u))
	t.add("HTMLEscape", "%s", h64(string(encoder.HTMLEscape(nil, data))))
	t.add("utf8.ValidateString", "%v", sutf8.ValidateString(s))
	t.add("utf8.Validate", "%v", sutf8.Validate(data))
	t.add("utf8.CorrectWith", "%s", h64(string(sutf8.CorrectWith(nil, data, "?"))))
	for k, cfg := range []sonic.API{sonic.ConfigDefault, sonic.ConfigStd} {
		m, err := cfg.Marshal(s)
		t.add(fmt.Sprintf("Marshal(string)/%d", k), "%v:%s", err != nil, h64(string(m)))
		m, err = cfg.Marshal(map[string]string{s: s})
		t.add(fmt.Sprintf("Marshal(map)/%d", k), "%v:%s", err != nil, h64(string(m)))
		m, err = cfg.Marshal([]interface{}{s, &s, strHolder{s}})
		t.add(fmt.Sprintf("Marshal(mixed)/%d", k), "%v:%s", err != nil, h64(string(m)))
		m, err = cfg.Marshal(data)
		t.add(fmt.Sprintf("Marshal(bytes)/%d", k), "%v:%s", err != nil, h64(string(m)))
	}
	{
		n := ast.NewString(s)
		js, err := n.MarshalJSON()
		t.add("ast.NewString", "%v:%s", err != nil, h64(string(js)))
	}
}

func (t *c05T) String() string {
	var sb strings.Builder
	for _, s := range t.segs {
		sb.WriteString(s.name + "=" + s.val + ";")
	}
	return sb.String()
}

// c05Compare runs f on the heap copy and on every placement of data.
func c05Compare(c *Ctx, i int, arena *place.Arena, kind string, input string, r *gen.Rng, f func(*c05T, []byte)) {
	base := &c05T{c: c}
	heap := []byte(input)
	if c.Guard(i, kind+" APIs (heap)", func() { f(base, heap) }) {
		return
	}
	type pl struct {
		name string
		data []byte
	}
	suffixes := []string{"0123456789", `"`, `\"`, `}]`, `e5`, ".5", "\xa9\xa9", `\\`, "\\u0041", "ue", "l", ` , "x":1}`, "\x00\x00\x00\x00", "================"}
	pls := []pl{
		{"end-at-guard-page", arena.BeforeGuard(heap, 0, 0)},
		{"start-after-guard-page", arena.AfterGuard(heap)},
	}
	// a few alignments with hostile continuations: offsets chosen by the case RNG, 0 and 63 always
	offs := []int{0, 63, r.Intn(64), r.Intn(64)}
	for k, off := range offs {
		sfx := suffixes[(r.Intn(len(suffixes))+k)%len(suffixes)]
		pls = append(pls, pl{fmt.Sprintf("aligned+%d,suffix=%q", off, sfx), place.Aligned(heap, off, []byte(sfx))})
	}
	gap := 1 + r.Intn(40)
	sfx := suffixes[r.Intn(len(suffixes))]
	fillb := sfx[0]
	pls = append(pls, pl{fmt.Sprintf("%d-bytes-before-guard,fill=%q", gap, fillb), arena.BeforeGuard(heap, gap, fillb)})
	// open findings B42/B43 are fatal faults: while they are listed as open, the guard-page placements of
	// the inputs they cover are left out (a dead worker loses its counters); the pinned witnesses keep
	// reproducing them, and the other placements of the same inputs are still compared.
	knownFault := ""
	if c.Waive["B42"] && c05LastTokenZero.MatchString(input) {
		knownFault = "B42"
	} else if c.Waive["B43"] && len(input) <= 3 && strings.ContainsAny(input, "tnf") {
		knownFault = "B43"
	}
	if knownFault != "" {
		// with readable bytes behind the input the same over-read shows as a result that depends on them
		// (-0 followed by e5; n followed by ull, which even moves the position behind the input)
		kf := knownFault
		c.Filter = func(i int, api, msg string, detail interface{}) bool {
			c.Known(kf, i, api, msg, detail)
			return true
		}
		defer func() { c.Filter = nil }()
	}
	for _, p := range pls {
		if knownFault != "" && strings.Contains(p.name, "guard") {
			c.Count("guard_placements_left_out_"+knownFault, 1)
			continue
		}
		got := &c05T{c: c}
		c.Cur("case %d kind=%s placement=%s input=%q", i, kind, p.name, input)
		if c.Guard(i, kind+" APIs ("+p.name+")", func() { f(got, p.data) }) {
			continue
		}
		c.Count("placements", 1)
		c.Count("api_calls", int64(len(got.segs)))
		if len(got.segs) != len(base.segs) {
			c.Violate(i, kind, "transcript shape depends on placement", map[string]interface{}{"placement": p.name, "input": q(input), "heap": trunc(base.String(), 400), "placed": trunc(got.String(), 400)})
			continue
		}
		for k := range got.segs {
			if got.segs[k] != base.segs[k] {
				c.Violate(i, got.segs[k].name, "result depends on where the input lies / what follows it", map[string]interface{}{"placement": p.name, "input": q(input), "heap": base.segs[k].val, "placed": got.segs[k].val})
			}
		}
	}
	// the same bytes on the heap, with another history of the internal pools: what earlier calls left
	// in pooled parse buffers and scanner states is "outside the input" as well
	for k, primer := range c05Primers {
		// (priced per entry point: only for short inputs that are not valid UTF-8 - the correcting
		// paths copy into pooled buffers - and for one input in 16 otherwise)
		if len(input) > 400 || (utf8.ValidString(input) && i%16 != 3) {
			break
		}
		got := &c05T{c: c}
		c.Cur("case %d kind=%s placement=heap,pools-primed-%d input=%q", i, kind, k, input)
		c05Primer = primer
		bad := c.Guard(i, kind+" APIs (pools primed)", func() { f(got, heap) })
		c05Primer = ""
		if bad || len(got.segs) != len(base.segs) {
			continue
		}
		c.Count("placements_pool_history", 1)
		for j := range got.segs {
			if got.segs[j] != base.segs[j] {
				c.Violate(i, got.segs[j].name, "result depends on what earlier calls left in the internal pools", map[string]interface{}{"primer": k, "input": q(input), "fresh": base.segs[j].val, "primed": got.segs[j].val})
			}
		}
	}
	arena.Release()
	c.Distinct(gen.HashString(kind+input), len(input) > 0)
	c.Count("inputs_"+kind, 1)
}

func runC05(c *Ctx) {
	arena := place.NewArena()
	idx := 0
	next := func() (int, bool, bool) {
		i := idx
		idx++
		if c.Stop(i) {
			return i, false, true
		}
		return i, c.Begin(i), false
	}
	// 1. block sweeps: a special byte group at every position of documents/strings of every length around the vector widths
	L := c.N(40, 140)
	specials := []string{`\"`, `\\`, `"`, `\`, "\x00", "\n", `A`, "é", "[", "}", ",", "<", "\xff", " ", "\\u00e9", "\xe2\x82"}
	g := 0
	for kind := 0; kind < 6; kind++ {
		for n := 0; n <= L; n++ {
			for p := 0; p <= n; p++ {
				for _, sp := range specials {
					g++
					if !c.Mine(g) {
						continue
					}
					i, run, stop := next()
					if stop {
						return
					}
					if !run {
						continue
					}
					r := c.Rng(i)
					doc := gen.BlockDoc(kind, n, p, sp)
					c05Compare(c, i, arena, "blockdoc", doc, r, c05Doc)
					if kind == 0 {
						raw := strings.Repeat("a", p) + sp + strings.Repeat("a", n-p)
						c05Compare(c, i, arena, "blockstr", raw, r, c05Str)
					}
				}
			}
		}
	}
	// 2. every prefix of seeded documents (tokens cut at the very end of readable memory)
	N1 := c.N(6, 200)
	small := gen.DocOpts{MaxDepth: 3, MaxWidth: 4, MaxStr: 40, WS: true, EscapeKeys: true}
	for k := 0; k < N1; k++ {
		r0 := c.Rng(1<<26 + k)
		var doc string
		switch k % 6 {
		case 4:
			// quoted numbers and literals: the scalar opcodes look behind an opening quote
			doc = `"` + r0.NumberLiteral() + `"`
		case 5:
			doc = `{"a":"` + r0.NumberLiteral() + `","i":"-12","f":"1.5e3","n":"` + r0.NumberLiteral() + `","b":"true","s":"\"x\"","` + strconv.Itoa(r0.Intn(100)) + `":7}`
		case 0:
			doc = r0.Doc(&small)
		case 1:
			doc = `{"a":` + r0.NumberLiteral() + `,"k":[true,` + r0.NumberLiteral() + `],"b":"` + r0.EscapedBody(3) + `"}`
		case 2:
			doc = `["` + r0.EscapedBody(4) + `",null,false,` + r0.NumberLiteral() + `]`
		default:
			doc = r0.Mutate(r0.Doc(&small))
		}
		if len(doc) > 160 {
			doc = doc[:160]
		}
		for cut := 0; cut <= len(doc); cut++ {
			i, run, stop := next()
			if stop {
				return
			}
			if !run {
				continue
			}
			c05Compare(c, i, arena, "prefix", doc[:cut], c.Rng(i), c05Doc)
		}
	}
	// 2b. typed destinations: the generated decoders read literals, keys, brackets and numbers with their
	// own inline code, so every prefix of a document is decoded into the type it was generated for
	// (the C01 case generator: random reflect-built and catalogue types with matching documents)
	N2 := c.N(12, 400)
	for k := 0; k < N2; k++ {
		cs := genC01Case(c, 1<<25+k)
		cs.prefill = false
		doc := cs.doc
		if len(doc) > 240 {
			doc = doc[:240]
		}
		typed := func(t *c05T, data []byte) {
			s := place.Str(data)
			for ci, cfg := range []sonic.API{sonic.ConfigDefault, sonic.ConfigStd} {
				dst := newDst(cs)
				err := cfg.UnmarshalFromString(s, dst.Interface())
				t.add(fmt.Sprintf("Unmarshal(%s)/%d", trunc(gen.Describe(cs.t), 60), ci), "%s:%s", errFull(err), h64(gen.Dump(dst.Elem())))
			}
			dst := newDst(cs)
			d := decoder.NewDecoder(s)
			d.DisallowUnknownFields()
			d.UseNumber()
			err := d.Decode(dst.Interface())
			t.add("Decoder(DisallowUnknown,UseNumber)", "%s:%d:%s", errFull(err), d.Pos(), h64(gen.Dump(dst.Elem())))
		}
		rk := c.Rng(1<<25 + k)
		for cut := 0; cut <= len(doc); cut++ {
			if len(doc) > 60 && cut < len(doc)-12 && !rk.Chance(1, 4) {
				continue
			}
			i, run, stop := next()
			if stop {
				return
			}
			if !run {
				continue
			}
			c05Compare(c, i, arena, "typed-prefix", doc[:cut], c.Rng(i), typed)
		}
	}
	// 3. seeded documents / mutations / strings / numbers of ordinary and large sizes
	N := c.N(150, 10000)
	opts := gen.DefaultDoc
	for k := 0; k < N; k++ {
		i, run, stop := next()
		if stop {
			return
		}
		if !run {
			continue
		}
		r := c.Rng(i)
		switch r.Intn(6) {
		case 0:
			c05Compare(c, i, arena, "doc", r.Doc(&opts), r, c05Doc)
		case 1, 2:
			c05Compare(c, i, arena, "mutated", r.Mutate(r.Doc(&opts)), r, c05Doc)
		case 3:
			c05Compare(c, i, arena, "string", r.RawString(c.N(300, 9000)), r, c05Str)
		case 4:
			c05Compare(c, i, arena, "escapes", r.EscapedBody(10), r, c05Str)
		default:
			c05Compare(c, i, arena, "number", r.NumberLiteral(), r, c05Doc)
		}
	}
}
