package main

import (
	"bytes"
	"encoding/json"
	"fmt"
	"os"
	"reflect"
	"regexp"
	"strconv"
	"strings"
	"unicode/utf8"

	"github.com/bytedance/sonic"
	"github.com/bytedance/sonic/ast"
	"github.com/bytedance/sonic/decoder"
	"github.com/bytedance/sonic/encoder"
	"github.com/bytedance/sonic/unquote"
	sutf8 "github.com/bytedance/sonic/utf8"

	"verifharness/cat"
	"verifharness/gen"
	"verifharness/ref"
)

// Cross-process equivalence workloads: every case emits a digest line
//
//	D <i> <digest> [flag,flag...]
//
// and the orchestrator compares the digests of the same case across processes
// that differ only in an implementation switch. A flag names an open known
// finding whose predicate holds for this case *in this process* (evaluated on
// this process' own outcome), so that the orchestrator can attribute a
// mismatch.
func init() {
	workloads["C11"] = runC11
	workloads["C12"] = runC12
	workloads["C13"] = runC13
	witnesses["B37"] = func() (bool, string) {
		var a, b cat.Embeds
		e1 := sonic.UnmarshalString(`{"v":null,"extra":1}`, &a)
		e2 := json.Unmarshal([]byte(`{"v":null,"extra":1}`), &b)
		return isOptdec && e1 == nil && e2 == nil && (a.List == nil) != (b.List == nil), fmt.Sprintf("optdec=%v {\"v\":null} where v is promoted from an embedded *List: sonic allocates=%v, encoding/json allocates=%v", isOptdec, a.List != nil, b.List != nil)
	}
	witnesses["B38"] = func() (bool, string) {
		a := []cat.TextV{{A: 7, B: 8}}
		b := []cat.TextV{{A: 7, B: 8}}
		e1 := sonic.UnmarshalString(`[null]`, &a)
		e2 := json.Unmarshal([]byte(`[null]`), &b)
		return isOptdec && e1 == nil && e2 == nil && fmt.Sprint(a) != fmt.Sprint(b), fmt.Sprintf("optdec=%v [null] over a pre-populated []TextV{{7 8}}: sonic %v, encoding/json %v", isOptdec, a, b)
	}
	witnesses["B39"] = func() (bool, string) {
		var a, b string
		doc := "\"q\tuote\\\"x\""
		e1 := sonic.ConfigStd.UnmarshalFromString(doc, &a)
		e2 := json.Unmarshal([]byte(doc), &b)
		return isOptdec && e1 == nil && e2 != nil, fmt.Sprintf("optdec=%v ConfigStd %q: sonic err=%v, encoding/json err=%v", isOptdec, doc, errStr(e1), errStr(e2))
	}
}

var ctrlInEscapedString = regexp.MustCompile(`"(?:[^"\\]|\\.)*(?:\\.(?:[^"\\]|\\.)*[\x00-\x1f]|[\x00-\x1f](?:[^"\\]|\\.)*\\.)(?:[^"\\]|\\.)*"`)

func hasEmbeddedPtrStruct(t reflect.Type) bool {
	if t.Kind() != reflect.Struct {
		return false
	}
	for i := 0; i < t.NumField(); i++ {
		f := t.Field(i)
		if f.Anonymous && f.Type.Kind() == reflect.Ptr && f.Type.Elem().Kind() == reflect.Struct {
			return true
		}
	}
	return false
}

func isIntKeyMap(t reflect.Type) bool {
	if t.Kind() != reflect.Map {
		return false
	}
	switch t.Key().Kind() {
	case reflect.Int, reflect.Int8, reflect.Int16, reflect.Int32, reflect.Int64, reflect.Uint, reflect.Uint8, reflect.Uint16, reflect.Uint32, reflect.Uint64, reflect.Uintptr:
		return true
	}
	return false
}

func h64(s string) string { return strconv.FormatUint(gen.HashString(s), 16) }

// ---------------------------------------------------------------------------
// C11: decoder implementations. Same cases as C01.

func runC11(c *Ctx) {
	N := c.N(3000, 200000)
	for i := 0; i < N; i++ {
		if c.Stop(i) {
			return
		}
		if !c.Begin(i) {
			continue
		}
		cs := genC01Case(c, i)
		if i%8 == 7 {
			// loosely typed destinations (interface{}, map[string]interface{}, []interface{} and a struct of
			// them) with number-heavy documents: the generic/fast-map paths of the implementations
			tc := c18Targeted([]string{"UseNumber", "UseNumber", "ValidateString"}[(i/8)%3], c.Rng(i+1<<27))
			tc.cfg = cs.cfg
			cs = tc
		}
		if i%40 == 13 {
			// maps with number- and bool-kinded keys (and `,string` numbers) given texts that are words,
			// signs or oddly spelt numbers: the implementations must agree on which of them are keys
			r := c.Rng(i + 1<<25)
			kt := []reflect.Type{reflect.TypeOf(int(0)), reflect.TypeOf(int8(0)), reflect.TypeOf(int32(0)), reflect.TypeOf(int64(0)), reflect.TypeOf(uint(0)), reflect.TypeOf(uint16(0)), reflect.TypeOf(uint64(0)), reflect.TypeOf(uintptr(0)), reflect.TypeOf(cat.NamedInt(0))}[r.Intn(9)]
			word := []string{"null", "true", "false", "-", "", "NaN", " 1", "1 ", "1.0", "1e2", "0x10", "-0", "128", "-129", "65536", "18446744073709551616", "9223372036854775808"}[r.Intn(17)]
			tc := *cs
			tc.t = reflect.MapOf(kt, reflect.TypeOf(0))
			tc.doc = `{"7":1,"` + word + `":2,"9":3}`
			if r.Chance(1, 3) {
				tc.t = reflect.StructOf([]reflect.StructField{{Name: "A", Type: kt, Tag: `json:"a,string"`}})
				tc.doc = `{"a":"` + word + `"}`
			}
			tc.exact, tc.prefill, tc.label = false, false, "word-or-odd-number key"
			cs = &tc
			c.Count("word_or_odd_number_key_cases", 1)
		}
		if os.Getenv("VERIF_DDMIN") != "" {
			// triage aid: shrink the document while Unmarshal still panics
			bad := func(doc string) (p bool) {
				defer func() {
					if recover() != nil {
						p = true
					}
				}()
				cs2 := *cs
				cs2.doc = doc
				d := newDst(&cs2)
				if err := cs.cfg.api.Unmarshal([]byte(doc), d.Interface()); err != nil {
					_ = err.Error()
				}
				return false
			}
			doc := cs.doc
			if bad(doc) {
				for chunk := len(doc) / 2; chunk >= 1; chunk /= 2 {
					for k := 0; k+chunk <= len(doc); {
						if d := doc[:k] + doc[k+chunk:]; bad(d) {
							doc = d
						} else {
							k += chunk
						}
					}
				}
				fmt.Printf("DDMIN %q\n", doc)
			}
		}
		sd := newDst(cs)
		var serr error
		c.Vf("TYPE %s\nCFG %s prefill=%v label=%s\nDOC %q", gen.Describe(cs.t), cs.cfg.name, cs.prefill, cs.label, cs.doc)
		if c.Guard(i, "Unmarshal", func() { serr = cs.cfg.api.Unmarshal([]byte(cs.doc), sd.Interface()) }) {
			c.Digest(i, "PANIC")
			continue
		}
		var flags []string
		dig := "E"
		if serr == nil {
			d := gen.Dump(sd.Elem())
			// normalise what listed findings make differ between the implementations
			dig = "V" + h64(d)
			c.Vf("VALUE %s", trunc(d, 4000))
		} else {
			c.Vf("ERR %s", errStr(serr))
			if isOptdec && hasOverflowFloat(cs.doc) {
				flags = append(flags, "B20")
			}
		}
		// preconditions of listed findings on which the two implementations are known
		// to behave differently (the orchestrator uses them only to attribute a mismatch)
		if hasOddIntKey(cs.doc) && typeHas(cs.t, isIntKeyMap) {
			flags = append(flags, "B31")
		}
		if negZeroTok.MatchString(cs.doc) {
			flags = append(flags, "B24")
		}
		if c05LastTokenZero.MatchString(cs.doc) {
			flags = append(flags, "B42") // the byte behind a final 0 / -0 token is read: it differs between two processes
		}
		if cs.cfg.std && !utf8.ValidString(cs.doc) {
			flags = append(flags, "B12")
		}
		if strings.Contains(cs.doc, "null") {
			if typeHas(cs.t, hasEmbeddedPtrStruct) {
				flags = append(flags, "B37") // promoted field of an embedded *struct given null
			}
			if cs.prefill {
				flags = append(flags, "B38") // null over a pre-populated value
			}
		}
		if cs.cfg.std && ctrlInEscapedString.MatchString(cs.doc) {
			flags = append(flags, "B39") // raw control character inside a literal that also has an escape
		}
		if !ref.StructOK(cs.doc) && serr == nil {
			if unterminatedTail32(cs.doc) {
				flags = append(flags, "B28")
			} else {
				c.Violate(i, "Unmarshal/"+cs.cfg.name, "accepted a structurally malformed document", map[string]interface{}{"type": trunc(gen.Describe(cs.t), 300), "doc": q(cs.doc)})
			}
		}
		if !json.Valid([]byte(cs.doc)) {
			// The property compares the implementations on valid documents and demands
			// rejection of structurally malformed ones (checked above); in between
			// (string-content defects) either answer is allowed.
			dig = "NOTVALID"
			c.Count("documents_not_valid_json_not_compared", 1)
		}
		if i%4 == 1 && dig != "NOTVALID" && dig != "PANIC" {
			// one decoder.Decoder over several concatenated values (every call continues at the
			// position the previous one reached): the implementations must agree on each value
			dd := gen.DefaultDoc
			second := c.Rng(i + 1<<26).Doc(&dd)
			all := cs.doc + " " + second + "\n" + cs.doc
			var parts []string
			c.Guard(i, "decoder.Decoder x3", func() {
				// (where the position stands after a failed Decode is not specified: the comparison ends there)
				d := decoder.NewDecoder(all)
				d1 := newDst(cs)
				if e := d.Decode(d1.Interface()); e != nil {
					parts = append(parts, "E1")
					return
				}
				parts = append(parts, gen.Dump(d1.Elem()))
				var v2 interface{}
				if e := d.Decode(&v2); e != nil {
					parts = append(parts, "E2")
					return
				}
				parts = append(parts, gen.Dump(reflect.ValueOf(&v2).Elem()))
				d3 := newDst(cs)
				if e := d.Decode(d3.Interface()); e != nil {
					parts = append(parts, "E3")
					return
				}
				parts = append(parts, gen.Dump(d3.Elem()))
			})
			c.Vf("MULTI %q -> %s", trunc(all, 600), trunc(strings.Join(parts, " ; "), 300000))
			dig += ".M" + h64(strings.Join(parts, "\x00"))
			c.Count("multi_value_decoder_cases", 1)
		}
		if i%250 == 77 && dig != "PANIC" {
			// documents of more than 65536 nodes one after the other (pooled parser state: node buffers
			// that were grown, positions at which a buffer filled up): record-shaped arrays whose
			// alignment is shifted by 0-5 leading scalars, decoded into interface{} and []struct
			r := c.Rng(i + 1<<24)
			var parts []string
			c.Guard(i, "big documents in sequence", func() {
				for k := 0; k < 5; k++ {
					n := 22000 + r.Intn(6000)
					doc := "[" + strings.Repeat("0,", r.Intn(6)) + strings.Repeat(`{"k":1},`, n) + `{"k":2,"s":"x"}]`
					var v interface{}
					err := cs.cfg.api.UnmarshalFromString(doc, &v)
					l := -1
					if a, ok := v.([]interface{}); ok {
						l = len(a)
					}
					parts = append(parts, fmt.Sprint(err == nil, l))
					var recs []struct {
						K int    `json:"k"`
						S string `json:"s"`
					}
					doc2 := "[" + strings.Repeat(`{"k":1},`, n+r.Intn(7)) + `{"k":2,"s":"x"}]`
					err = cs.cfg.api.UnmarshalFromString(doc2, &recs)
					parts = append(parts, fmt.Sprint(err == nil, len(recs)))
				}
			})
			c.Vf("BIGSEQ %s", strings.Join(parts, " "))
			dig += ".B" + h64(strings.Join(parts, "|"))
			c.Count("big_document_sequences", 1)
		}
		c.Digest(i, dig+" "+strings.Join(flags, ","))
		c.Distinct(gen.HashString(gen.Describe(cs.t)+"|"+cs.cfg.name+"|"+cs.doc), len(cs.doc) >= 2)
		c.Count("cfg_"+cs.cfg.name, 1)
		if serr == nil {
			c.Count("decoded_ok", 1)
		}
		c.Sample(cs.cfg.name, 1, map[string]string{"type": trunc(gen.Describe(cs.t), 200), "doc": q(cs.doc)})
	}
}

// ---------------------------------------------------------------------------
// C12: encoder back ends. Same value generator as C03, all option sets.

var encOptBits = []encoder.Options{encoder.SortMapKeys, encoder.EscapeHTML, encoder.CompactMarshaler, encoder.NoQuoteTextMarshaler,
	encoder.NoNullSliceOrMap, encoder.ValidateString, encoder.NoValidateJSONMarshaler, encoder.NoEncoderNewline, encoder.EncodeNullForInfOrNan}

func optName(o encoder.Options) string {
	names := []string{"SortMapKeys", "EscapeHTML", "CompactMarshaler", "NoQuoteTextMarshaler", "NoNullSliceOrMap", "ValidateString", "NoValidateJSONMarshaler", "NoEncoderNewline", "EncodeNullForInfOrNan"}
	var s []string
	for k, b := range encOptBits {
		if o&b != 0 {
			s = append(s, names[k])
		}
	}
	return strings.Join(s, "|")
}

// c12Deep builds a value nested close to the encoder's nesting limit (4096 saved states; a level
// of nesting costs 1, 2 or more states depending on its shape, so depths near 4096/k are drawn).
func c12Deep(r *gen.Rng) (interface{}, string) {
	k := 1 + r.Intn(4)
	depth := 4096/k + r.Range(-3, 3)
	shape := r.Intn(5)
	var v interface{} = 1
	switch shape {
	case 0:
		for j := 0; j < depth; j++ {
			v = []interface{}{v}
		}
	case 1:
		for j := 0; j < depth; j++ {
			v = map[string]interface{}{"k": v}
		}
	case 2:
		var l *cat.List
		for j := 0; j < depth; j++ {
			l = &cat.List{V: float64(j), Next: l}
		}
		v = l
	case 3:
		var t *cat.Tree
		for j := 0; j < depth; j++ {
			if j%2 == 0 {
				t = &cat.Tree{Val: j, Left: t}
			} else {
				t = &cat.Tree{Val: j, Kids: []*cat.Tree{t}}
			}
		}
		v = t
	default:
		for j := 0; j < depth; j++ {
			if j%2 == 0 {
				v = []interface{}{v}
			} else {
				p := new(interface{})
				*p = v
				v = p
			}
		}
	}
	return v, fmt.Sprintf("shape %d depth %d", shape, depth)
}

func runC12(c *Ctx) {
	N := c.N(3000, 200000)
	for i := 0; i < N; i++ {
		if c.Stop(i) {
			return
		}
		if !c.Begin(i) {
			continue
		}
		cs := genC03Case(c, i)
		r := c.Rng(i + 1<<28)
		var opts encoder.Options
		for _, b := range encOptBits {
			if r.Bool() {
				opts |= b
			}
		}
		// unsorted maps have no defined order: compare them only when sorted
		hasMap := typeHas(cs.t, func(t reflect.Type) bool { return t.Kind() == reflect.Map || t.Kind() == reflect.Interface })
		if hasMap {
			opts |= encoder.SortMapKeys
		}
		arg := cs.arg()
		deep := ""
		if i%25 == 7 {
			// values nested around the encoder's state-stack limit: both back ends must give up at the same depth
			arg, deep = c12Deep(r)
			c.Count("values_nested_around_the_state_stack_limit", 1)
		}
		var out []byte
		var err error
		c.Vf("TYPE %s\nHOW %s OPTS %s DEEP %s\nVALUE %s", gen.Describe(cs.t), cs.label, optName(opts), deep, trunc(gen.Dump(cs.v), 3000))
		if c.Guard(i, "encoder.Encode", func() { out, err = encoder.Encode(arg, opts) }) {
			c.Digest(i, "PANIC")
			continue
		}
		dig := "E"
		if err == nil {
			dig = "V" + h64(string(out))
			c.Vf("OUT %q", trunc(string(out), 4000))
			// (well-formedness of the output is property C04's business)
		} else {
			c.Vf("ERR %s", errStr(err))
		}
		c.Digest(i, dig)
		c.Distinct(gen.HashString(gen.Describe(cs.t)+"|"+cs.label+"|"+optName(opts)+"|"+gen.Dump(cs.v)+deep), true)
		c.Count("optionsets_"+strconv.Itoa(int(opts)&0x3), 1)
		c.Sample("case", 2, map[string]string{"type": trunc(gen.Describe(cs.t), 200), "opts": optName(opts)})
	}
}

// ---------------------------------------------------------------------------
// C13: SIMD levels. Every public API that reaches a native routine, on
// documents and byte strings of all lengths.

type recVisitor struct{ sb strings.Builder }

func (v *recVisitor) OnNull() error { v.sb.WriteString("n;"); return nil }
func (v *recVisitor) OnBool(b bool) error {
	fmt.Fprintf(&v.sb, "b%v;", b)
	return nil
}
func (v *recVisitor) OnString(s string) error { fmt.Fprintf(&v.sb, "s%q;", s); return nil }
func (v *recVisitor) OnInt64(x int64, n json.Number) error {
	fmt.Fprintf(&v.sb, "i%d/%s;", x, n)
	return nil
}
func (v *recVisitor) OnFloat64(x float64, n json.Number) error {
	fmt.Fprintf(&v.sb, "f%x/%s;", x, n)
	return nil
}
func (v *recVisitor) OnObjectBegin(int) error     { v.sb.WriteString("{;"); return nil }
func (v *recVisitor) OnObjectKey(k string) error  { fmt.Fprintf(&v.sb, "k%q;", k); return nil }
func (v *recVisitor) OnObjectEnd() error          { v.sb.WriteString("};"); return nil }
func (v *recVisitor) OnArrayBegin(int) error      { v.sb.WriteString("[;"); return nil }
func (v *recVisitor) OnArrayEnd() error           { v.sb.WriteString("];"); return nil }

func errClass(err error) string {
	if err == nil {
		return "ok"
	}
	switch e := err.(type) {
	case decoder.SyntaxError:
		return fmt.Sprintf("syntax@%d/%d", e.Pos, int(e.Code))
	case *decoder.MismatchTypeError:
		return fmt.Sprintf("mismatch@%d", e.Pos)
	}
	return "err:" + trunc(err.Error(), 80)
}

// c13Doc runs every document-consuming native-backed API on one input and
// returns a transcript.
func c13Doc(doc string) string {
	var sb strings.Builder
	data := []byte(doc)
	fmt.Fprintf(&sb, "valid=%v;", sonic.Valid(data))
	var v interface{}
	err := sonic.Unmarshal(data, &v)
	fmt.Fprintf(&sb, "iface=%s:%s;", errClass(err), h64(gen.Dump(reflect.ValueOf(&v).Elem())))
	var v2 interface{}
	err = sonic.ConfigStd.Unmarshal(data, &v2)
	fmt.Fprintf(&sb, "std=%s:%s;", errClass(err), h64(gen.Dump(reflect.ValueOf(&v2).Elem())))
	var st c02Struct
	err = sonic.Unmarshal(data, &st)
	fmt.Fprintf(&sb, "struct=%s:%s;", errClass(err), h64(gen.Dump(reflect.ValueOf(st))))
	var rm json.RawMessage
	err = sonic.Unmarshal(data, &rm)
	fmt.Fprintf(&sb, "raw=%s:%s;", errClass(err), h64(string(rm)))
	s, e := decoder.Skip(data)
	fmt.Fprintf(&sb, "skip=%d,%d;", s, e)
	for _, path := range [][]interface{}{nil, {"a"}, {0}, {"k", 1}, {"z", 1, "q"}, {"want"}, {2}} {
		n, err := sonic.Get(data, path...)
		if err != nil {
			fmt.Fprintf(&sb, "get%v=%s;", path, trunc(err.Error(), 60))
			continue
		}
		raw, _ := n.Raw()
		x, ierr := n.Interface()
		fmt.Fprintf(&sb, "get%v=%s/%v/%s;", path, h64(raw), ierr != nil, h64(fmt.Sprint(x)))
	}
	// the non-validating lazy entries: children and skipped siblings go through the native fast
	// skipper, whose verdict (error kind and position) on malformed text is part of the result
	for _, path := range [][]interface{}{nil, {"a"}, {0}, {"k", 1}, {"want"}, {2}} {
		n, err := sonic.GetWithOptions(data, ast.SearchOptions{ValidateJSON: false}, path...)
		if err != nil {
			fmt.Fprintf(&sb, "lget%v=%s;", path, trunc(err.Error(), 60))
			continue
		}
		raw, _ := n.Raw()
		lerr := n.LoadAll()
		js, merr := n.MarshalJSON()
		fmt.Fprintf(&sb, "lget%v=%s/%s/%s/%s;", path, h64(raw), trunc(errStr(lerr), 60), trunc(errStr(merr), 60), h64(string(js)))
	}
	{
		pn, perr := ast.NewParser(doc).Parse()
		fmt.Fprintf(&sb, "parse=%d;", int(perr))
		if perr == 0 {
			var parts []string
			pn.ForEach(func(p ast.Sequence, n *ast.Node) bool {
				r, e := n.Raw()
				parts = append(parts, h64(r)+trunc(errStr(e), 60))
				return len(parts) < 64
			})
			lerr := pn.LoadAll()
			js, merr := pn.MarshalJSON()
			fmt.Fprintf(&sb, "parsed=%s/%s/%s/%s;", h64(strings.Join(parts, ",")), trunc(errStr(lerr), 60), trunc(errStr(merr), 60), h64(string(js)))
		}
	}
	nd := ast.NewRaw(doc)
	fmt.Fprintf(&sb, "newraw=%v;", nd.Check() == nil)
	if nd.Check() == nil {
		lerr := nd.LoadAll()
		js, merr := nd.MarshalJSON()
		fmt.Fprintf(&sb, "loadall=%v/%v/%s;", lerr != nil, merr != nil, h64(string(js)))
	}
	vis := &recVisitor{}
	perr := ast.Preorder(doc, vis, nil)
	fmt.Fprintf(&sb, "preorder=%v:%s;", perr != nil, h64(vis.sb.String()))
	return sb.String()
}

// c13Str runs every string routine on one byte string.
func c13Str(raw string) string {
	var sb strings.Builder
	fmt.Fprintf(&sb, "quote=%s;", h64(encoder.Quote(raw)))
	u, perr := unquote.String(raw)
	fmt.Fprintf(&sb, "unquote=%d:%s;", int(perr), h64(u))
	fmt.Fprintf(&sb, "html=%s;", h64(string(encoder.HTMLEscape(nil, []byte(raw)))))
	fmt.Fprintf(&sb, "utf8=%v;", sutf8.ValidateString(raw))
	fmt.Fprintf(&sb, "correct=%s;", h64(string(sutf8.CorrectWith(nil, []byte(raw), "?"))))
	for k, cfg := range []sonic.API{sonic.ConfigDefault, sonic.ConfigStd} {
		m, err := cfg.Marshal(raw)
		fmt.Fprintf(&sb, "marshal%d=%v:%s;", k, err != nil, h64(string(m)))
		var out string
		err = cfg.UnmarshalFromString(`"`+raw+`"`, &out)
		fmt.Fprintf(&sb, "unmarshal%d=%s:%s;", k, errClass(err), h64(out))
	}
	m, err := sonic.Marshal(strHolder{raw})
	fmt.Fprintf(&sb, "dquote=%v:%s;", err != nil, h64(string(m)))
	// caller-supplied buffers of every capacity residue: generated code keeps buffer geometry in registers
	// next to the arguments of the native calls (base64, quote)
	for _, cp := range []int{0, 1, 2, 3, 5, 1025, 1026, 1027} {
		buf := make([]byte, 0, cp)
		err := encoder.EncodeInto(&buf, struct {
			B []byte
			S string
			P *[]byte
		}{[]byte(raw), raw, &[]byte{0xfb, 0xff, 0xfe}}, 0)
		fmt.Fprintf(&sb, "into%d=%v:%s;", cp, err != nil, h64(string(buf)))
	}
	return sb.String()
}

func c13Num(lit string, f float64, g float32, iv int64) string {
	var sb strings.Builder
	var x float64
	err := sonic.UnmarshalString(lit, &x)
	fmt.Fprintf(&sb, "f64=%v:%x;", err != nil, x)
	var y float32
	err = sonic.UnmarshalString(lit, &y)
	fmt.Fprintf(&sb, "f32=%v:%x;", err != nil, y)
	var z int64
	err = sonic.UnmarshalString(lit, &z)
	fmt.Fprintf(&sb, "i64=%v:%d;", err != nil, z)
	var w interface{}
	err = cfgUseInt64.UnmarshalFromString(lit, &w)
	fmt.Fprintf(&sb, "int64opt=%v:%v;", err != nil, w)
	o1, _ := sonic.Marshal(f)
	o2, _ := sonic.Marshal(g)
	o3, _ := sonic.Marshal(iv)
	o4, _ := sonic.Marshal(uint64(iv))
	fmt.Fprintf(&sb, "fmt=%s,%s,%s,%s;", o1, o2, o3, o4)
	return sb.String()
}

func runC13(c *Ctx) {
	idx := 0
	next := func() (int, bool, bool) {
		i := idx
		idx++
		if c.Stop(i) {
			return i, false, true
		}
		return i, c.Begin(i), false
	}
	emit := func(i int, kind, input, transcript string) {
		c.Vf("KIND %s INPUT %q\nTRANSCRIPT %s", kind, input, transcript)
		flag := ""
		if doc := strings.SplitN(input, "\x00", 2)[0]; kind != "blockstr" && kind != "string" && kind != "escapes" && c05LastTokenZero.MatchString(doc) {
			// known finding B42: behind a number token 0 / -0 that ends the input the native scanner
			// reads one byte more, and what lies there differs between two processes
			flag = " B42"
			c.Count("inputs_ending_in_a_zero_token(B42 attribution)", 1)
		}
		c.Digest(i, h64(transcript)+flag)
		c.Distinct(gen.HashString(kind+input), len(input) > 0)
		c.Count("inputs_"+kind, 1)
	}
	// block sweeps (documents and strings at every offset of the vector width)
	L := c.N(70, 160)
	specials := []string{`\"`, `\\`, `"`, `\`, "\x00", "\n", `A`, "é", "[", "}", ",", "<", "\xff", " "}
	g := 0
	for kind := 0; kind < 6; kind++ {
		for n := 0; n <= L; n++ {
			for p := 0; p <= n; p++ {
				for _, sp := range specials {
					g++
					if !c.Mine(g) {
						continue
					}
					i, run, stop := next()
					if stop {
						return
					}
					if !run {
						continue
					}
					doc := gen.BlockDoc(kind, n, p, sp)
					var t string
					c.Guard(i, "doc APIs", func() { t = c13Doc(doc) })
					emit(i, "blockdoc", doc, t)
					if kind == 0 {
						raw := strings.Repeat("a", p) + sp + strings.Repeat("a", n-p)
						c.Guard(i, "string APIs", func() { t += c13Str(raw) })
						emit(i, "blockstr", raw, t)
					}
				}
			}
		}
	}
	// random documents / mutations / strings / numbers
	N := c.N(4000, 300000)
	opts := gen.DefaultDoc
	for k := 0; k < N; k++ {
		i, run, stop := next()
		if stop {
			return
		}
		if !run {
			continue
		}
		r := c.Rng(i)
		var t string
		switch r.Intn(6) {
		case 0:
			doc := r.Doc(&opts)
			c.Guard(i, "doc APIs", func() { t = c13Doc(doc) })
			emit(i, "doc", doc, t)
		case 1, 2:
			doc := r.Mutate(r.Doc(&opts))
			c.Guard(i, "doc APIs", func() { t = c13Doc(doc) })
			emit(i, "mutated", doc, t)
		case 3:
			raw := r.RawString(c.N(300, 3000))
			c.Guard(i, "string APIs", func() { t = c13Str(raw) })
			emit(i, "string", raw, t)
		case 4:
			raw := r.EscapedBody(10)
			c.Guard(i, "string APIs", func() { t = c13Str(raw) })
			emit(i, "escapes", raw, t)
		default:
			lit := r.NumberLiteral()
			f, gg, iv := r.InterestingFloat64(), r.InterestingFloat32(), int64(r.U64())>>uint(r.Intn(64))
			c.Guard(i, "number APIs", func() { t = c13Num(lit, f, gg, iv) })
			emit(i, "number", lit+"\x00"+fmt.Sprint(f, gg, iv), t)
		}
	}
	_ = bytes.Equal
}
