package main

import (
	"encoding/json"
	"fmt"
	"reflect"
	"strconv"
	"strings"

	"github.com/bytedance/sonic"
	"github.com/bytedance/sonic/ast"

	"verifharness/gen"
	"verifharness/ref"
)

func init() {
	workloads["C14"] = runC14
}

var c14Opts = func() []ast.SearchOptions {
	var o []ast.SearchOptions
	for k := 0; k < 8; k++ {
		o = append(o, ast.SearchOptions{ValidateJSON: k&1 != 0, CopyReturn: k&2 != 0, ConcurrentRead: k&4 != 0})
	}
	return o
}()

// refEvents is the reference Preorder event stream of a parsed document.
func refEvents(v *ref.Value, sb *strings.Builder) {
	switch v.Kind {
	case ref.Null:
		sb.WriteString("n;")
	case ref.Bool:
		fmt.Fprintf(sb, "b%v;", v.B)
	case ref.Str:
		fmt.Fprintf(sb, "s%q;", v.Text)
	case ref.Num:
		if iv, ok := isInt64Lit(v.Text); ok {
			fmt.Fprintf(sb, "i%d/%s;", iv, v.Text)
		} else {
			f, _ := strconv.ParseFloat(v.Text, 64)
			fmt.Fprintf(sb, "f%x/%s;", f, v.Text)
		}
	case ref.Arr:
		sb.WriteString("[;")
		for _, e := range v.Elems {
			refEvents(e, sb)
		}
		sb.WriteString("];")
	case ref.Obj:
		sb.WriteString("{;")
		for i, e := range v.Elems {
			fmt.Fprintf(sb, "k%q;", v.Keys[i])
			refEvents(e, sb)
		}
		sb.WriteString("};")
	}
}

func hasOverflowNum(v *ref.Value) bool {
	if v.Kind == ref.Num {
		if _, err := strconv.ParseFloat(v.Text, 64); err != nil {
			return true
		}
	}
	for _, e := range v.Elems {
		if hasOverflowNum(e) {
			return true
		}
	}
	return false
}

// c14Paths derives paths of every flavour from a parsed document.
func c14Paths(r *gen.Rng, v *ref.Value) [][]interface{} {
	var ps [][]interface{}
	for k := 0; k < 4; k++ {
		if p := randomPath(r, v); p != nil {
			ps = append(ps, p)
		}
	}
	base := randomPath(r, v)
	at := v.Lookup(base)
	cp := func(p []interface{}, x interface{}) []interface{} { return append(append([]interface{}{}, p...), x) }
	if at != nil {
		switch at.Kind {
		case ref.Obj:
			ps = append(ps, cp(base, "no_such_key"), cp(base, ""), cp(base, 0), cp(base, len(at.Elems)))
			if len(at.Keys) > 0 {
				k := at.Keys[len(at.Keys)-1]
				ps = append(ps, cp(base, k), cp(base, k+"x"), cp(base, strings.ToUpper(k)))
				if len(k) > 0 {
					ps = append(ps, cp(base, k[:len(k)-1]))
				}
			}
		case ref.Arr:
			ps = append(ps, cp(base, len(at.Elems)), cp(base, len(at.Elems)+1000), cp(base, "a"))
			if len(at.Elems) > 0 {
				ps = append(ps, cp(base, len(at.Elems)-1))
			}
		default:
			ps = append(ps, cp(base, 0), cp(base, "a"))
		}
	}
	ps = append(ps, []interface{}{})
	return ps
}

func pathStr(p []interface{}) string { return fmt.Sprintf("%#v", p) }

func c14One(c *Ctx, i int, doc string, r *gen.Rng) {
	tree, ok := ref.Parse(doc)
	if !ok {
		c.Note(i, "inconclusive: generator produced an invalid document", q(doc))
		return
	}
	data := []byte(doc)
	// ---- Preorder
	{
		var want strings.Builder
		refEvents(tree, &want)
		vis := &recVisitor{}
		err := ast.Preorder(doc, vis, nil)
		if err != nil {
			if !hasOverflowNum(tree) {
				c.Violate(i, "ast.Preorder", "error on a valid document: "+errStr(err), q(doc))
			}
		} else if vis.sb.String() != want.String() {
			a, b := diffAt(vis.sb.String(), want.String())
			if strings.Contains(doc, "-0") && strings.ReplaceAll(vis.sb.String(), "f0x0p+00/-0;", "f-0x0p+00/-0;") == want.String() {
				c.Known("B24", i, "ast.Preorder", "literal -0 decodes to +0", q(doc))
			} else {
				c.Violate(i, "ast.Preorder", "event stream differs from the reference tree walk", map[string]string{"doc": q(doc), "got": a, "want": b})
			}
		}
		c.Count("preorder_docs", 1)
	}
	// ---- paths
	for _, path := range c14Paths(r, tree) {
		want := tree.Lookup(path)
		wantRaw := ""
		if want != nil {
			wantRaw = doc[want.Start:want.End]
		}
		c.Count("paths", 1)
		if want != nil {
			c.Count("paths_existing", 1)
		}
		check := func(api string, n ast.Node, err error) {
			if want == nil {
				if err == nil && n.Exists() && n.Check() == nil {
					raw, _ := n.Raw()
					c.Violate(i, api, "found a value at a path that does not exist", map[string]string{"doc": q(doc), "path": pathStr(path), "got": q(raw)})
				}
				return
			}
			if err != nil {
				c.Violate(i, api, "existing path not found: "+errStr(err), map[string]string{"doc": q(doc), "path": pathStr(path), "want": q(wantRaw)})
				return
			}
			raw, rerr := n.Raw()
			same := raw == wantRaw
			if !same && want.Kind == ref.Num && strings.TrimRight(raw, " \t\r\n") == wantRaw {
				// tolerated: the fast skipper delimits a number at the next structural byte,
				// so Raw() of a number may carry trailing white space (same value; Number(),
				// Int64(), Float64() and MarshalJSON() trim it, checked in the views)
				same = true
				c.Count("number_raw_with_trailing_space", 1)
			}
			if !same && strings.Contains(api, "/Load") {
				// a parsed node re-serialises itself: insignificant white space is gone,
				// the tokens must be the same
				if rt, ok := tokensOf([]byte(raw)); ok && strings.Join(rt, "\x00") == strings.Join(want.Tokens(nil), "\x00") {
					same = true
				}
			}
			if rerr != nil || !same {
				c.Violate(i, api, "located node's Raw text is not the addressed value", map[string]string{"doc": q(doc), "path": pathStr(path), "want": q(wantRaw), "got": q(raw), "err": errStr(rerr)})
			}
		}
		c.Guard(i, "Get*", func() {
			n, err := sonic.Get(data, path...)
			check("sonic.Get", n, err)
			n, err = sonic.GetFromString(doc, path...)
			check("sonic.GetFromString", n, err)
			n, err = sonic.GetCopyFromString(doc, path...)
			check("sonic.GetCopyFromString", n, err)
			for _, o := range c14Opts {
				n, err = sonic.GetWithOptions(data, o, path...)
				check(fmt.Sprintf("sonic.GetWithOptions(%+v)", o), n, err)
			}
			// the copying searches ("the returned JSON is copied from the input"): the located node must
			// describe the same value after the caller has reused its buffer for something else
			reuse := func(b []byte) {
				for k := range b {
					b[k] = ' '
				}
				copy(b, "[7]")
			}
			own := []byte(doc)
			n, err = sonic.Get(own, path...)
			reuse(own)
			check("sonic.Get([]byte) after the caller reused its buffer", n, err)
			for _, o := range c14Opts {
				if !o.CopyReturn {
					continue
				}
				own = []byte(doc)
				n, err = sonic.GetWithOptions(own, o, path...)
				reuse(own)
				check(fmt.Sprintf("sonic.GetWithOptions(%+v) after the caller reused its buffer", o), n, err)
			}
			c.Count("copying_searches_checked_after_buffer_reuse", 1)
		})
		// navigation from a root node, three loading states
		for mode := 0; mode < 3; mode++ {
			c.Guard(i, "Node.GetByPath", func() {
				root, err := sonic.GetFromString(doc)
				if err != nil {
					c.Violate(i, "sonic.GetFromString()", "valid document rejected: "+errStr(err), q(doc))
					return
				}
				label := "lazy"
				switch mode {
				case 1:
					root.Load()
					label = "Load"
				case 2:
					root.LoadAll()
					label = "LoadAll"
				}
				// Index(i) on an object is documented to address the i-th pair: the reference
				// Lookup does not model that, such paths are skipped for Node navigation
				objIndex := false
				{
					t := tree
					for _, st := range path {
						if t == nil {
							break
						}
						if _, isInt := st.(int); isInt && t.Kind == ref.Obj {
							objIndex = true
						}
						t = t.Lookup([]interface{}{st})
					}
				}
				if objIndex {
					return
				}
				n := root.GetByPath(path...)
				var nerr error
				if n == nil || !n.Exists() || n.Check() != nil {
					nerr = ast.ErrNotExist
					n = &ast.Node{}
				}
				check("Node.GetByPath/"+label, *n, nerr)
				// step by step
				cur := &root
				for _, st := range path {
					switch x := st.(type) {
					case string:
						cur = cur.Get(x)
					case int:
						cur = cur.Index(x)
					}
				}
				nerr = nil
				if cur == nil || !cur.Exists() || cur.Check() != nil {
					nerr = ast.ErrNotExist
					cur = &ast.Node{}
				}
				check("Node.Get/Index chain/"+label, *cur, nerr)
			})
		}
		if want != nil {
			c14Views(c, i, doc, path, want, wantRaw)
		}
	}
	c14Shared(c, i, doc, tree, r)
}

// c14Shared: one node answers many lookups. A lazily parsed object changes its
// representation while it is read (pairs are appended as the walk proceeds, the
// key index is built when the walk reaches the end), so the answer to the same
// Get must not depend on what was asked before.
func c14Shared(c *Ctx, i int, doc string, tree *ref.Value, r *gen.Rng) {
	if tree.Kind != ref.Obj || len(tree.Keys) == 0 {
		return
	}
	first := map[string]*ref.Value{}
	var keys []string
	for k, key := range tree.Keys {
		if _, ok := first[key]; !ok {
			first[key] = tree.Elems[k]
			keys = append(keys, key)
		}
	}
	for variant := 0; variant < 3; variant++ {
		label := []string{"NewRaw", "GetFromString", "Searcher(ConcurrentRead)"}[variant]
		c.Guard(i, "shared root/"+label, func() {
			var root ast.Node
			switch variant {
			case 0:
				root = ast.NewRaw(doc)
			case 1:
				root, _ = sonic.GetFromString(doc)
			default:
				s := ast.NewSearcher(doc)
				s.ConcurrentRead = true
				root, _ = s.GetByPath()
			}
			look := func(phase string) {
				for _, key := range keys {
					n := root.Get(key)
					if n == nil || !n.Exists() || n.Check() != nil {
						c.Violate(i, "Node.Get/"+label, "a present key is not found "+phase, map[string]string{"doc": q(doc), "key": q(key), "members": strconv.Itoa(len(tree.Keys))})
						continue
					}
					raw, _ := n.Raw()
					gt, ok := tokensOf([]byte(raw))
					if !ok || strings.Join(gt, "\x00") != strings.Join(first[key].Tokens(nil), "\x00") {
						c.Violate(i, "Node.Get/"+label, "Get returns another value than the first member with that key "+phase, map[string]string{"doc": q(doc), "key": q(key), "got": q(raw)})
					}
				}
			}
			order := r.Intn(4)
			if order == 0 {
				look("on first contact")
			}
			if order <= 1 {
				// a miss walks the object to its end
				if n := root.Get("\x00no such key"); n != nil && n.Exists() {
					c.Violate(i, "Node.Get/"+label, "a missing key is found", q(doc))
				}
				look("after a miss walked the whole object")
			}
			if order == 2 {
				root.Index(len(tree.Keys) / 2)
				look("after Index walked half of the object")
			}
			n := 0
			root.ForEach(func(path ast.Sequence, node *ast.Node) bool { n++; return true })
			if n != len(tree.Keys) {
				c.Violate(i, "Node.ForEach/"+label, "visits a different number of members", map[string]string{"doc": q(doc), "got": strconv.Itoa(n), "want": strconv.Itoa(len(tree.Keys))})
			}
			look("after ForEach")
			c.Count("shared_root_lookups", int64(len(keys)))
		})
	}
}

// c14Views checks every read-only view of the located node against encoding/json on the span.
func c14Views(c *Ctx, i int, doc string, path []interface{}, want *ref.Value, span string) {
	for mode := 0; mode < 3; mode++ {
		label := []string{"lazy", "Load", "LoadAll"}[mode]
		c.Guard(i, "views/"+label, func() {
			n, err := sonic.GetFromString(doc, path...)
			if err != nil {
				return
			}
			switch mode {
			case 1:
				n.Load()
			case 2:
				n.LoadAll()
			}
			bad := func(api, msg string, got, wantv interface{}) {
				c.Violate(i, api+"/"+label, msg, map[string]string{"span": q(span), "path": pathStr(path), "got": trunc(fmt.Sprint(got), 300), "want": trunc(fmt.Sprint(wantv), 300)})
			}
			// Interface / InterfaceUseNumber
			var jv interface{}
			jerr := json.Unmarshal([]byte(span), &jv)
			sv, serr := n.Interface()
			if (serr == nil) != (jerr == nil) {
				bad("Node.Interface", "error-or-not differs from encoding/json on the span", errStr(serr), errStr(jerr))
			} else if serr == nil {
				a, b := gen.Dump(reflect.ValueOf(&sv).Elem()), gen.Dump(reflect.ValueOf(&jv).Elem())
				if a != b {
					// (no waiver for the literal -0 here: finding B24 sits in the native number scanner of
					// Unmarshal; the ast conversions go through strconv and keep the sign of zero)
					x, y := diffAt(a, b)
					bad("Node.Interface", "value differs from encoding/json on the span", x, y)
				}
			}
			var jn interface{}
			jd := json.NewDecoder(strings.NewReader(span))
			jd.UseNumber()
			jd.Decode(&jn)
			sn, nerr := n.InterfaceUseNumber()
			if nerr != nil {
				bad("Node.InterfaceUseNumber", "error: "+errStr(nerr), "", "")
			} else if a, b := gen.Dump(reflect.ValueOf(&sn).Elem()), gen.Dump(reflect.ValueOf(&jn).Elem()); a != b {
				x, y := diffAt(a, b)
				bad("Node.InterfaceUseNumber", "value differs from encoding/json(UseNumber) on the span", x, y)
			}
			// MarshalJSON as a token stream
			if mj, err := n.MarshalJSON(); err != nil {
				bad("Node.MarshalJSON", "error: "+errStr(err), "", "")
			} else {
				gt, ok := tokensOf(mj)
				if !ok || strings.Join(gt, "\x00") != strings.Join(want.Tokens(nil), "\x00") {
					bad("Node.MarshalJSON", "token stream differs from the addressed value", q(string(mj)), q(span))
				}
			}
			// kind specific
			switch want.Kind {
			case ref.Null:
				if n.Type() != ast.V_NULL {
					bad("Node.Type", "not V_NULL", n.Type(), "V_NULL")
				}
			case ref.Bool:
				if b, err := n.Bool(); err != nil || b != want.B {
					bad("Node.Bool", "wrong value", b, want.B)
				}
			case ref.Str:
				if s, err := n.String(); err != nil || s != want.Text {
					bad("Node.String", "wrong value", q(s), q(want.Text))
				}
				if s, err := n.StrictString(); err != nil || s != want.Text {
					bad("Node.StrictString", "wrong value", q(s), q(want.Text))
				}
				if l, err := n.Len(); err != nil || l != len(want.Text) {
					bad("Node.Len(string)", "wrong length", l, len(want.Text))
				}
			case ref.Num:
				if num, err := n.Number(); err != nil || string(num) != want.Text {
					bad("Node.Number", "text not preserved", num, want.Text)
				}
				if f, perr := strconv.ParseFloat(want.Text, 64); perr == nil {
					g, err := n.Float64()
					if err != nil || (g != f) || (want.Text != "-0" && strconv.FormatFloat(g, 'g', -1, 64) != strconv.FormatFloat(f, 'g', -1, 64)) {
						bad("Node.Float64", "wrong value", g, f)
					}
				}
				if iv, ok := isInt64Lit(want.Text); ok {
					if g, err := n.Int64(); err != nil || g != iv {
						bad("Node.Int64", "wrong value", g, iv)
					}
				}
			case ref.Arr:
				if mode > 0 {
					if l, err := n.Len(); err != nil || l != len(want.Elems) {
						bad("Node.Len(array)", "wrong length after load", l, len(want.Elems))
					}
				}
				it, err := n.Values()
				if err != nil {
					bad("Node.Values", "error: "+errStr(err), "", "")
					break
				}
				k := 0
				var e ast.Node
				for it.Next(&e) {
					if k >= len(want.Elems) {
						bad("Node.Values", "iterator yields more elements than the array has", k+1, len(want.Elems))
						break
					}
					raw, _ := e.Raw()
					if rt, ok := tokensOf([]byte(raw)); !ok || strings.Join(rt, "\x00") != strings.Join(want.Elems[k].Tokens(nil), "\x00") {
						bad("Node.Values", fmt.Sprintf("element %d differs", k), q(raw), q(doc[want.Elems[k].Start:want.Elems[k].End]))
					}
					k++
				}
				if k != len(want.Elems) {
					bad("Node.Values", "iterator yields fewer elements than the array has", k, len(want.Elems))
				}
				k = 0
				n.ForEach(func(p ast.Sequence, nd *ast.Node) bool {
					if p.Index != k || p.Key != nil {
						bad("Node.ForEach", "wrong sequence index", p.String(), k)
					}
					k++
					return true
				})
				if k != len(want.Elems) {
					bad("Node.ForEach", "visits a different number of elements", k, len(want.Elems))
				}
				arr, err := n.Array()
				if err != nil || len(arr) != len(want.Elems) {
					bad("Node.Array", "wrong length or error "+errStr(err), len(arr), len(want.Elems))
				}
				ua, err := n.ArrayUseNode()
				if err != nil || len(ua) != len(want.Elems) {
					bad("Node.ArrayUseNode", "wrong length or error "+errStr(err), len(ua), len(want.Elems))
				}
			case ref.Obj:
				if mode > 0 {
					if l, err := n.Len(); err != nil || l != len(want.Elems) {
						bad("Node.Len(object)", "wrong length after load", l, len(want.Elems))
					}
				}
				it, err := n.Properties()
				if err != nil {
					bad("Node.Properties", "error: "+errStr(err), "", "")
					break
				}
				k := 0
				var p ast.Pair
				for it.Next(&p) {
					if k >= len(want.Elems) {
						bad("Node.Properties", "iterator yields more pairs than the object has", k+1, len(want.Elems))
						break
					}
					raw, _ := p.Value.Raw()
					rt, ok := tokensOf([]byte(raw))
					if p.Key != want.Keys[k] || !ok || strings.Join(rt, "\x00") != strings.Join(want.Elems[k].Tokens(nil), "\x00") {
						bad("Node.Properties", fmt.Sprintf("pair %d differs", k), q(p.Key)+":"+q(raw), q(want.Keys[k])+":"+q(doc[want.Elems[k].Start:want.Elems[k].End]))
					}
					k++
				}
				if k != len(want.Elems) {
					bad("Node.Properties", "iterator yields fewer pairs than the object has", k, len(want.Elems))
				}
				k = 0
				n.ForEach(func(s ast.Sequence, nd *ast.Node) bool {
					if k < len(want.Keys) && (s.Key == nil || *s.Key != want.Keys[k] || s.Index != k) {
						bad("Node.ForEach", "wrong sequence key/index", s.String(), fmt.Sprintf("(%d,%q)", k, want.Keys[k]))
					}
					k++
					return true
				})
				if k != len(want.Elems) {
					bad("Node.ForEach", "visits a different number of pairs", k, len(want.Elems))
				}
				// Map: duplicates collapse as in a Go map
				distinct := map[string]bool{}
				for _, key := range want.Keys {
					distinct[key] = true
				}
				m, err := n.Map()
				if err != nil || len(m) != len(distinct) {
					bad("Node.Map", "wrong size or error "+errStr(err), len(m), len(distinct))
				}
				um, err := n.MapUseNode()
				if err != nil || len(um) != len(distinct) {
					bad("Node.MapUseNode", "wrong size or error "+errStr(err), len(um), len(distinct))
				}
				// IndexPair addresses pairs in document order
				for k := range want.Keys {
					pr := n.IndexPair(k)
					if pr == nil || pr.Key != want.Keys[k] {
						got := "<nil>"
						if pr != nil {
							got = pr.Key
						}
						bad("Node.IndexPair", fmt.Sprintf("pair %d has the wrong key", k), q(got), q(want.Keys[k]))
						break
					}
				}
			}
		})
		c.Count("views", 1)
	}
}

func runC14(c *Ctx) {
	idx := 0
	next := func() (int, bool, bool) {
		i := idx
		idx++
		if c.Stop(i) {
			return i, false, true
		}
		return i, c.Begin(i), false
	}
	N := c.N(700, 40000)
	for k := 0; k < N; k++ {
		i, run, stop := next()
		if stop {
			return
		}
		if !run {
			continue
		}
		r := c.Rng(i)
		o := gen.DefaultDoc
		o.MaxDepth = r.Range(1, 6)
		var doc string
		switch r.Intn(8) {
		case 0: // skipper stress: strings with brackets/quotes as skipped siblings, long white space
			doc = gen.BlockDoc(4, r.Range(0, 140), r.Range(0, 140), []string{`\"`, `\\`, `]`, `}`, `{`, `[`, `,`, `:`}[r.Intn(8)])
		case 1: // many duplicate keys on both sides of the 16-pair index threshold
			var sb strings.Builder
			sb.WriteString("{")
			n := r.Range(1, 40)
			for j := 0; j < n; j++ {
				if j > 0 {
					sb.WriteString(",")
				}
				key := []string{"a", "b", "dup", "", "k", "ab", "abc"}[r.Intn(7)] + strconv.Itoa(r.Intn(4))
				if r.Chance(1, 3) {
					// the same key spelled with an escape sequence
					p := r.Intn(len(key))
					key = key[:p] + fmt.Sprintf(`\u%04x`, key[p]) + key[p+1:]
				}
				fmt.Fprintf(&sb, `"%s":%s`, key, r.SimpleNumber())
			}
			sb.WriteString("}")
			doc = sb.String()
		case 2: // deep
			d := r.Range(10, 200)
			doc = strings.Repeat(`{"a":[`, d) + `"x"` + strings.Repeat(`]}`, d)
		default:
			doc = r.Doc(&o)
		}
		c14One(c, i, doc, r)
		c.Distinct(gen.HashString(doc), len(doc) > 2)
		c.Sample("doc", 3, q(doc))
	}
}
