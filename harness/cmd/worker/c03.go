package main

import (
	"encoding/json"
	"fmt"
	"reflect"
	"strings"

	"github.com/bytedance/sonic"

	"verifharness/cat"
	"verifharness/gen"
	"verifharness/ref"
)

func init() {
	workloads["C03"] = runC03
	witnesses["B35"] = func() (bool, string) {
		// a JSONP value (pointer-receiver MarshalJSON) stored in an interface{} field of a
		// struct with more than 50 fields (compiled out of line), nested in another struct
		var fs []reflect.StructField
		for k := 0; k < 51; k++ {
			fs = append(fs, reflect.StructField{Name: fmt.Sprintf("F%d", k), Type: reflect.TypeOf(0), Tag: `json:",omitempty"`})
		}
		fs = append(fs, reflect.StructField{Name: "I", Type: reflect.TypeOf((*interface{})(nil)).Elem()})
		outer := reflect.StructOf([]reflect.StructField{{Name: "B", Type: reflect.StructOf(fs)}})
		v := reflect.New(outer)
		v.Elem().Field(0).Field(51).Set(reflect.ValueOf(cat.JSONP{S: "x"}))
		s, e1 := sonic.ConfigStd.Marshal(v.Interface())
		j, e2 := json.Marshal(v.Interface())
		return e1 == nil && e2 == nil && string(s) != string(j), fmt.Sprintf("JSONP value inside interface{} (not addressable) in an out-of-line compiled struct: sonic %s, encoding/json %s", s, j)
	}
	witnesses["B35h"] = func() (bool, string) {
		// the program compiled out of line for the elements of a slice field (addressable) must not
		// serve a later encode of the same type passed by value (not addressable)
		type In struct{ J cat.JSONP }
		type Out struct{ Arr []In }
		v := In{J: cat.JSONP{S: "x"}}
		a, e1 := sonic.ConfigStd.Marshal(&Out{Arr: []In{v}})
		b, e2 := sonic.ConfigStd.Marshal(v)
		j, _ := json.Marshal(v)
		return e1 == nil && e2 == nil && string(b) != string(j), fmt.Sprintf("Marshal(&Out{Arr: []In{v}}) = %s, then Marshal(v) = %s, encoding/json %s", a, b, j)
	}
	witnesses["B36"] = func() (bool, string) {
		v := []cat.Unsup{}
		s, e1 := sonic.ConfigStd.Marshal(v)
		j, e2 := json.Marshal(v)
		return e1 != nil && e2 == nil, fmt.Sprintf("empty []struct{...; C chan int}: sonic %s err=%v, encoding/json %s", s, errStr(e1), j)
	}
	witnesses["B14"] = func() (bool, string) {
		v := struct {
			S string `json:"s,string"`
		}{"<a>\xff"}
		s, e1 := sonic.ConfigStd.Marshal(v)
		j, e2 := json.Marshal(v)
		return e1 == nil && e2 == nil && string(s) != string(j), fmt.Sprintf("ConfigStd.Marshal of a `,string` string field holding \"<a>\\xff\": sonic %s, encoding/json %s", s, j)
	}
}

// encCatalogue is the catalogue for the encoding direction. Value types whose
// marshaling methods have pointer receivers only (JSONP, TextP) are used both by
// value and through pointers (B35, fixed: dispatch follows addressability as in
// encoding/json). Avoid-mode of B36: cat.Unsup (nil chan/func fields with
// omitempty) is left out.
func encCatalogue() (all, erroring []reflect.Type) {
	for _, t := range append(append([]reflect.Type{}, cat.All...), cat.EncodeOnly...) {
		if cat.PtrRecvOnly[t] {
			// both ways: whether the pointer-receiver methods are used depends on addressability
			all = append(all, reflect.PtrTo(t))
		}
		all = append(all, t)
	}
	for _, t := range cat.Erroring {
		if t.Name() != "Unsup" {
			erroring = append(erroring, t)
		}
	}
	return
}

var encCat, encErr = encCatalogue()
var c03TypeOpts = gen.TypeOpts{BothKeys: true, MaxDepth: 4, Catalogue: encCat, Erroring: encErr}
var c03ValOpts = gen.ValOpts{BigSlices: true, MaxLen: 6, NaN: true, BadUTF8: true, BadNumber: true, IfaceTyped: true, Catalogue: encCat, NilChance: 5, BigStrings: true}

type c03Case struct {
	t     reflect.Type
	v     reflect.Value
	how   int // 0 value, 1 pointer, 2 inside interface{} slice, 3 map value
	label string
}

func genC03Case(c *Ctx, i int) *c03Case { return genC03CaseR(c.Rng(i)) }

func genC03CaseR(r *gen.Rng) *c03Case {
	cs := &c03Case{}
	switch r.Intn(10) {
	case 0, 1, 2:
		all := c03TypeOpts.Catalogue
		cs.t = all[r.Intn(len(all))]
		if r.Chance(1, 3) {
			cs.t = reflect.SliceOf(cs.t)
		} else if r.Chance(1, 4) {
			cs.t = reflect.MapOf(reflect.TypeOf(""), cs.t)
		} else if r.Chance(1, 5) {
			cs.t = reflect.PtrTo(cs.t)
		}
	default:
		cs.t = r.Type(&c03TypeOpts, 0)
	}
	vo := c03ValOpts
	if r.Chance(2, 3) {
		vo.NaN = false // most values should be encodable
		vo.BadNumber = false
	}
	cs.v = r.Value(cs.t, &vo, 0)
	cs.how = r.Intn(4)
	cs.label = []string{"value", "pointer", "in-[]interface{}", "in-map[string]interface{}"}[cs.how]
	return cs
}

func (cs *c03Case) arg() interface{} {
	switch cs.how {
	case 1:
		p := reflect.New(cs.t)
		p.Elem().Set(cs.v)
		return p.Interface()
	case 2:
		return []interface{}{cs.v.Interface(), 1}
	case 3:
		return map[string]interface{}{"k": cs.v.Interface()}
	}
	return cs.v.Interface()
}

// tokensOf parses an encoder output; ok=false if it is not exactly one JSON value.
func tokensOf(out []byte) ([]string, bool) {
	v, ok := ref.Parse(string(out))
	if !ok {
		return nil, false
	}
	return v.Tokens(nil), true
}

func firstTokenDiff(a, b []string) string {
	n := len(a)
	if len(b) < n {
		n = len(b)
	}
	for k := 0; k < n; k++ {
		if a[k] != b[k] {
			lo := k - 3
			if lo < 0 {
				lo = 0
			}
			hi := k + 3
			ha, hb := hi, hi
			if ha > len(a) {
				ha = len(a)
			}
			if hb > len(b) {
				hb = len(b)
			}
			return fmt.Sprintf("token %d: sonic %q vs std %q", k, trunc(strings.Join(a[lo:ha], " "), 300), trunc(strings.Join(b[lo:hb], " "), 300))
		}
	}
	return fmt.Sprintf("token counts differ: sonic %d, std %d; tails: %q vs %q", len(a), len(b), trunc(strings.Join(a[n:], " "), 200), trunc(strings.Join(b[n:], " "), 200))
}

// onlyInnerQuotedDiffs is the predicate of known finding B14: every differing
// token pair is a string whose content is itself a JSON string literal (the
// `,string` option on a string field), and the two inner literals denote the
// same string.
func onlyInnerQuotedDiffs(a, b []string) bool {
	n := 0
	for k := range a {
		if a[k] == b[k] {
			continue
		}
		if !strings.HasPrefix(a[k], "$\"") || !strings.HasPrefix(b[k], "$\"") {
			return false
		}
		x, ok1 := ref.UnquoteLiteral(a[k][1:])
		y, ok2 := ref.UnquoteLiteral(b[k][1:])
		if !ok1 || !ok2 || string(ref.CorrectUTF8([]byte(x), "\xef\xbf\xbd")) != string(ref.CorrectUTF8([]byte(y), "\xef\xbf\xbd")) {
			return false
		}
		n++
	}
	return n > 0
}

// c03Compare is shared with other encode checks: compares a sonic output with
// encoding/json's for the same argument.
func c03Compare(c *Ctx, i int, api string, sout []byte, serr error, jout []byte, jerr error, detail func() map[string]interface{}) bool {
	switch {
	case (serr == nil) != (jerr == nil):
		d := detail()
		d["sonic_err"], d["std_err"] = errStr(serr), errStr(jerr)
		d["sonic_out"], d["std_out"] = q(string(sout)), q(string(jout))
		c.Violate(i, api, "error-or-not differs from encoding/json", d)
		return false
	case serr != nil:
		c.Count("both_error", 1)
		return true
	}
	st, ok := tokensOf(sout)
	if !ok {
		d := detail()
		d["sonic_out"], d["std_out"] = q(string(sout)), q(string(jout))
		c.Violate(i, api, "output is not one well-formed JSON value", d)
		return false
	}
	jt, _ := tokensOf(jout)
	if len(st) != len(jt) || strings.Join(st, "\x00") != strings.Join(jt, "\x00") {
		d := detail()
		if len(st) == len(jt) && onlyInnerQuotedDiffs(st, jt) {
			d["diff"] = firstTokenDiff(st, jt)
			c.Known("B14", i, api, "`,string` on a string field: the inner literal is neither HTML-escaped nor UTF-8-corrected (the doubly-decoded strings agree)", d)
			return true
		}
		d["diff"] = firstTokenDiff(st, jt)
		d["sonic_out"], d["std_out"] = q(string(sout)), q(string(jout))
		c.Violate(i, api, "token stream differs from encoding/json", d)
		return false
	}
	if string(sout) != string(jout) {
		c.Count("equal_tokens_different_escape_spelling", 1)
	} else {
		c.Count("byte_identical", 1)
	}
	return true
}

func runC03(c *Ctx) {
	N := c.N(3000, 200000)
	types := map[string]bool{}
	for i := 0; i < N; i++ {
		if c.Stop(i) {
			return
		}
		if !c.Begin(i) {
			continue
		}
		cs := genC03Case(c, i)
		desc := gen.Describe(cs.t)
		arg := cs.arg()
		var sout []byte
		var serr error
		if c.Guard(i, "ConfigStd.Marshal", func() { sout, serr = sonic.ConfigStd.Marshal(arg) }) {
			continue
		}
		var jout []byte
		var jerr error
		func() {
			defer func() {
				if e := recover(); e != nil {
					jerr = fmt.Errorf("encoding/json panicked: %v", e)
				}
			}()
			jout, jerr = json.Marshal(arg)
		}()
		c.Vf("TYPE %s\nHOW %s\nVALUE %s", desc, cs.label, trunc(gen.Dump(cs.v), 3000))
		c03Compare(c, i, "ConfigStd.Marshal", sout, serr, jout, jerr, func() map[string]interface{} {
			return map[string]interface{}{"type": trunc(desc, 700), "how": cs.label, "value": trunc(gen.Dump(cs.v), 500)}
		})
		if !types[desc] {
			types[desc] = true
			c.Count("distinct_types", 1)
		}
		c.Distinct(gen.HashString(desc+"|"+cs.label+"|"+gen.Dump(cs.v)), len(jout) >= 2 || jerr != nil)
		c.Count("how_"+cs.label, 1)
		c.Sample(cs.label, 1, map[string]string{"type": trunc(desc, 200), "std_out": q(string(jout))})
	}
}
