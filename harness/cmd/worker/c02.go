package main

import (
	"encoding/json"
	"fmt"
	"reflect"
	"strconv"
	"strings"
	"unsafe"

	"github.com/bytedance/sonic"
	"github.com/bytedance/sonic/ast"
	"github.com/bytedance/sonic/decoder"

	"verifharness/gen"
	"verifharness/place"
	"verifharness/ref"
)

func init() {
	workloads["C02"] = runC02
	witnesses["B28"] = func() (bool, string) {
		doc := `"` + strings.Repeat("a", 32)
		var v interface{}
		err := sonic.UnmarshalString(doc, &v)
		ok := sonic.ValidString(doc)
		return ok && err == nil, fmt.Sprintf("Valid(%q)=%v, Unmarshal -> %q err=%v (an unterminated string)", doc, ok, v, errStr(err))
	}
	witnesses["B7"] = func() (bool, string) {
		n, err := sonic.Get([]byte(`-0xyz`))
		raw, _ := n.Raw()
		n2, err2 := sonic.Get([]byte(`{"a":{,xxx},"b":true}`), "b")
		raw2, _ := n2.Raw()
		return err == nil && err2 == nil, fmt.Sprintf("Get(`-0xyz`) -> %q err=%v; Get(`{\"a\":{,xxx},\"b\":true}`,\"b\") -> %q err=%v", raw, errStr(err), raw2, errStr(err2))
	}
}

type c02Struct struct {
	A   int                    `json:"a"`
	B   string                 `json:"b"`
	K   interface{}            `json:"k"`
	Z   []interface{}          `json:"z"`
	Id  *float64               `json:"id"`
	X   map[string]interface{} `json:"x"`
	Raw json.RawMessage        `json:"data"`
	N   *c02Struct             `json:"name"`
}

// capture records the bytes handed to UnmarshalJSON.
type capture struct{ got []string }

func (c *capture) UnmarshalJSON(b []byte) error {
	c.got = append(c.got, string(b))
	return nil
}

type c02Cap struct {
	A capture  `json:"a"`
	K *capture `json:"k"`
	X capture  `json:"x"`
}

// The nesting limit is not stated as a number in the documentation; the code
// has 4096 state-machine slots and every entry point handles 4095 levels
// (objects fail at 4096, arrays at 4097). Rejection is tolerated above 4095.
const sonicMaxDepth = 4095

type c02Doc struct {
	s     string
	sok   bool
	valid bool
	depth int
}

// judge applies the two bounds of the property to one API result.
func c02Judge(c *Ctx, i int, api string, d *c02Doc, accepted bool, upper bool, note string) {
	if accepted && !d.sok {
		c.Violate(i, api, "accepted a structurally malformed document", map[string]interface{}{"doc": q(d.s), "note": note})
	}
	if upper && !accepted && d.valid && d.depth <= sonicMaxDepth {
		c.Violate(i, api, "rejected a document that encoding/json.Valid accepts", map[string]interface{}{"doc": q(d.s), "note": note})
	}
}

func isSyntaxErr(err error) bool {
	if err == nil {
		return false
	}
	_, ok := err.(decoder.SyntaxError)
	return ok
}

func c02One(c *Ctx, i int, doc string, off int) {
	d := &c02Doc{s: doc, sok: ref.StructOK(doc), valid: json.Valid([]byte(doc)), depth: ref.MaxDepth(doc)}
	if d.valid && !d.sok {
		c.Note(i, "inconclusive: oracle self-check failed: json.Valid but not StructOK", q(doc))
		return
	}
	if _, ok := ref.Parse(doc); ok != d.valid && d.depth <= 10000 { // encoding/json itself stops at 10000 levels
		c.Note(i, "inconclusive: oracle self-check failed: ref.Parse disagrees with json.Valid", q(doc))
		return
	}
	data := place.Aligned([]byte(doc), off, []byte(`]}"x`))
	s := place.Str(data)
	c.Filter = func(i int, api, msg string, detail interface{}) bool {
		if strings.HasPrefix(msg, "accepted a structurally malformed") || strings.Contains(msg, "well-formed") {
			if unterminatedTail32(doc) {
				c.Known("B28", i, api, "unterminated final string that the SIMD rounds consume exactly is taken as terminated", detail)
				return true
			}
		}
		if isOptdec && (strings.HasPrefix(msg, "rejected a") || strings.HasPrefix(msg, "syntax error on")) && hasOverflowFloat(doc) {
			c.Known("B20", i, api, "optdec rejects a document containing a number literal whose float64 value overflows", detail)
			return true
		}
		return false
	}
	defer func() { c.Filter = nil }()

	// 1. validators
	c.Guard(i, "Valid", func() {
		c02Judge(c, i, "sonic.Valid", d, sonic.Valid(data), true, "")
		c02Judge(c, i, "sonic.ValidString", d, sonic.ValidString(s), true, "")
		c02Judge(c, i, "ConfigStd.Valid", d, sonic.ConfigStd.Valid(data), true, "")
		// NoValidateJSONSkip configuration: upper bound only
		if !sonic.ConfigFastest.Valid(data) && d.valid && d.depth <= sonicMaxDepth {
			c.Violate(i, "ConfigFastest.Valid", "rejected a valid document", q(doc))
		}
	})
	// 2. Unmarshal into interface{}
	c.Guard(i, "Unmarshal(interface{})", func() {
		var v interface{}
		err := sonic.UnmarshalString(s, &v)
		// an out-of-range number makes both sonic and encoding/json fail although the text is valid
		stdErr := error(nil)
		if d.valid {
			var sv interface{}
			stdErr = json.Unmarshal([]byte(doc), &sv)
		}
		c02Judge(c, i, "Unmarshal(interface{})", d, err == nil, stdErr == nil, errStr(err))
		var v2 interface{}
		err = sonic.ConfigStd.Unmarshal(data, &v2)
		c02Judge(c, i, "ConfigStd.Unmarshal(interface{})", d, err == nil, stdErr == nil, errStr(err))
		var v3 interface{}
		err = sonic.ConfigFastest.Unmarshal(data, &v3)
		if err != nil && d.valid && stdErr == nil && d.depth <= sonicMaxDepth {
			c.Violate(i, "ConfigFastest.Unmarshal(interface{})", "rejected a valid document", map[string]string{"doc": q(doc), "err": errStr(err)})
		}
	})
	// 3. typed destinations: skipping paths. A type mismatch is a legitimate
	// rejection, a syntax error on a valid document is not.
	c.Guard(i, "Unmarshal(struct)", func() {
		for k, cfg := range []sonic.API{sonic.ConfigDefault, sonic.ConfigStd} {
			var v c02Struct
			err := cfg.UnmarshalFromString(s, &v)
			api := []string{"Unmarshal(struct)", "ConfigStd.Unmarshal(struct)"}[k]
			if err == nil && !d.sok {
				c.Violate(i, api, "accepted a structurally malformed document", q(doc))
			}
			if isSyntaxErr(err) && d.valid && d.depth <= sonicMaxDepth {
				var sv c02Struct
				if se := json.Unmarshal([]byte(doc), &sv); se == nil {
					c.Violate(i, api, "syntax error on a document that encoding/json.Valid accepts", map[string]string{"doc": q(doc), "err": errStr(err)})
				}
			}
			var sl []c02Struct
			err = cfg.UnmarshalFromString(s, &sl)
			if err == nil && !d.sok {
				c.Violate(i, api+"[]", "accepted a structurally malformed document", q(doc))
			}
			var mp map[string]*c02Struct
			err = cfg.UnmarshalFromString(s, &mp)
			if err == nil && !d.sok {
				c.Violate(i, api+"map", "accepted a structurally malformed document", q(doc))
			}
			// maps whose element decoders are compiled inline and are of different sizes (slices, maps,
			// structs, pointers): the per-pair separator handling belongs to the map program
			for _, dst := range []interface{}{new(map[string][]int), new(map[string]map[string][]interface{}), new(map[string]struct {
				A int
				B string
				C []int
				D map[string]int
			}), new(map[string]*[]string), new([]map[string][]float64), new(map[int][]interface{})} {
				err = cfg.UnmarshalFromString(s, dst)
				if err == nil && !d.sok {
					c.Violate(i, api+fmt.Sprintf("%T", dst), "accepted a structurally malformed document", q(doc))
				}
			}
		}
	})
	// 4. RawMessage and Unmarshaler capture, *ast.Node
	c.Guard(i, "Unmarshal(capture)", func() {
		var rm json.RawMessage
		err := sonic.UnmarshalString(s, &rm)
		c02Judge(c, i, "Unmarshal(RawMessage)", d, err == nil, true, errStr(err))
		if err == nil && !ref.StructOK(string(rm)) {
			c.Violate(i, "Unmarshal(RawMessage)", "captured bytes are not one well-formed value", map[string]string{"doc": q(doc), "captured": q(string(rm))})
		}
		var cp capture
		err = sonic.UnmarshalString(s, &cp)
		c02Judge(c, i, "Unmarshal(Unmarshaler)", d, err == nil, true, errStr(err))
		cperr := err
		var cs c02Cap
		err = sonic.UnmarshalString(s, &cs)
		if err == nil && !d.sok {
			c.Violate(i, "Unmarshal(struct of Unmarshalers)", "accepted a structurally malformed document", q(doc))
		}
		var handed []string
		if cperr == nil {
			handed = append(handed, cp.got...)
		} else if len(cp.got) > 0 {
			// the call as a whole rejected the document; that it showed malformed bytes
			// to the callback first is not what the property is about (counted only)
			c.Count("callback_saw_bytes_of_rejected_doc", 1)
		}
		if err == nil {
			handed = append(append(handed, cs.A.got...), cs.X.got...)
		}
		for _, g := range handed {
			if !ref.StructOK(g) {
				c.Violate(i, "Unmarshal(Unmarshaler)", "bytes handed to UnmarshalJSON are not one well-formed value", map[string]string{"doc": q(doc), "captured": q(g)})
			}
		}
		var nd ast.Node
		err = sonic.UnmarshalString(s, &nd)
		ok := err == nil
		if ok {
			ok = nd.LoadAll() == nil && nd.Check() == nil
		}
		c02Judge(c, i, "Unmarshal(*ast.Node)+LoadAll", d, ok, true, errStr(err))
	})
	// 5. search APIs without a path: the whole document is the value
	c.Guard(i, "Get", func() {
		for k := 0; k < 3; k++ {
			var n ast.Node
			var err error
			api := ""
			switch k {
			case 0:
				api = "sonic.Get()"
				n, err = sonic.Get(data)
			case 1:
				api = "sonic.GetFromString()"
				n, err = sonic.GetFromString(s)
			case 2:
				api = "sonic.GetWithOptions(ValidateJSON)"
				n, err = sonic.GetWithOptions(data, ast.SearchOptions{ValidateJSON: true})
			}
			ok := err == nil
			raw := ""
			if ok {
				raw, _ = n.Raw() // what did it take for the value?
				raw = strings.Clone(raw)
				ok = n.Check() == nil && n.LoadAll() == nil && n.Check() == nil
			}
			if ok && !d.sok {
				if trailingGarbage(doc, raw) {
					c.Known("B7", i, api, "stops after the first value and ignores trailing non-space bytes", map[string]string{"doc": q(doc), "value": q(raw)})
				} else {
					c.Violate(i, api, "accepted a structurally malformed document", map[string]string{"doc": q(doc), "value": q(raw)})
				}
			}
			if !ok && d.valid && d.depth <= sonicMaxDepth {
				c.Violate(i, api, "rejected a document that encoding/json.Valid accepts", map[string]string{"doc": q(doc), "err": errStr(err)})
			}
		}
	})
	// 6. search with a path under ValidateJSON: whatever is consumed up to the
	// end of the located value must be free of structural errors.
	c.Guard(i, "Get(path)", func() { c02Path(c, i, d, data) })
	// 7. NewRaw / parser / Preorder
	c.Guard(i, "ast.NewRaw", func() {
		n := ast.NewRaw(s)
		ok := n.Check() == nil && n.Valid()
		raw := ""
		if ok {
			raw, _ = n.Raw()
			raw = strings.Clone(raw)
			ok = n.LoadAll() == nil && n.Check() == nil
		}
		if ok && !d.sok {
			if trailingGarbage(doc, raw) {
				c.Known("B7", i, "ast.NewRaw", "stops after the first value and ignores trailing non-space bytes", map[string]string{"doc": q(doc), "value": q(raw)})
			} else {
				c.Violate(i, "ast.NewRaw+LoadAll", "accepted a structurally malformed document", map[string]string{"doc": q(doc), "value": q(raw)})
			}
		}
		if !ok && d.valid && d.depth <= sonicMaxDepth {
			c.Violate(i, "ast.NewRaw+LoadAll", "rejected a document that encoding/json.Valid accepts", q(doc))
		}
		vis := &numVisitor{}
		err := ast.Preorder(s, vis, nil)
		if err == nil && !d.sok {
			c.Violate(i, "ast.Preorder", "accepted a structurally malformed document", q(doc))
		}
		if err != nil && d.valid && d.depth <= sonicMaxDepth {
			var sv interface{}
			if json.Unmarshal([]byte(doc), &sv) == nil { // out-of-range numbers fail in both
				c.Violate(i, "ast.Preorder", "rejected a document that encoding/json.Valid accepts", map[string]string{"doc": q(doc), "err": errStr(err)})
			}
		}
	})
	// 8. decoder.Skip: accepts iff start >= 0; then [start,end) is one value
	c.Guard(i, "decoder.Skip", func() {
		start, end := decoder.Skip(data)
		if start >= 0 {
			if end < start || end > len(doc) || strings.TrimLeft(doc[:start], " \t\r\n") != "" || !ref.StructOK(doc[start:end]) {
				c.Violate(i, "decoder.Skip", "reported span is not one well-formed value preceded by white space only", map[string]interface{}{"doc": q(doc), "start": start, "end": end})
			} else if d.valid {
				if strings.TrimSpace(doc) != doc[start:end] {
					c.Violate(i, "decoder.Skip", "span does not cover the value of a valid document", map[string]interface{}{"doc": q(doc), "start": start, "end": end})
				}
			}
		} else if d.valid && d.depth <= sonicMaxDepth {
			c.Violate(i, "decoder.Skip", "rejected a document that encoding/json.Valid accepts", map[string]interface{}{"doc": q(doc), "ret": start})
		}
	})
	if string(data) != doc {
		c.Violate(i, "any", "input bytes were modified", q(doc))
	}
}

// unterminatedTail32 is the predicate of known finding B28: the document ends
// inside a string literal that is never closed, does not end in a dangling
// backslash, and the number of bytes after the opening quote is a positive
// multiple of 32 (native advance_string tests an uninitialised byte when the
// SIMD rounds consume the input exactly).
func unterminatedTail32(doc string) bool {
	open, dangling, ok := ref.UnterminatedTail(doc)
	if !ok || dangling {
		return false
	}
	body := doc[open+1:]
	n := len(body)
	k := n - n%32 // bytes consumed by the 64- and 32-byte SIMD rounds
	if k == 0 {
		return false
	}
	rem := n - k
	// carry: the SIMD part ends in an unescaped backslash, the scalar part starts
	// by skipping the escaped byte
	bs := 0
	for j := k - 1; j >= 0 && body[j] == '\\'; j-- {
		bs++
	}
	if bs%2 == 1 {
		rem--
	}
	return rem == 0 // the scalar tail loop runs zero times and tests an uninitialised byte
}

// hasOverflowFloat: some number token of the (valid) document overflows float64.
func hasOverflowFloat(doc string) bool {
	v, ok := ref.Parse(doc)
	if !ok {
		return false
	}
	found := false
	var walk func(x *ref.Value)
	walk = func(x *ref.Value) {
		if x.Kind == ref.Num {
			if _, err := strconv.ParseFloat(x.Text, 64); err != nil {
				found = true
			}
		}
		for _, e := range x.Elems {
			walk(e)
		}
	}
	walk(v)
	return found
}

// trailingGarbage: value is a well-formed prefix value of doc (after leading
// space) and what follows it contains a non-space byte.
func trailingGarbage(doc, value string) bool {
	t := strings.TrimLeft(doc, " \t\r\n")
	if !strings.HasPrefix(t, value) || !ref.StructOK(value) {
		return false
	}
	return strings.TrimLeft(t[len(value):], " \t\r\n") != ""
}

func offsetIn(doc []byte, sub string) int {
	if len(doc) == 0 {
		return -1
	}
	base := uintptr(unsafe.Pointer(&doc[0]))
	p := uintptr(unsafe.Pointer(unsafe.StringData(sub)))
	if p < base || p > base+uintptr(len(doc)) {
		return -1
	}
	return int(p - base)
}

// errOffset returns the offset of the first structural error (lenient string
// contents), or len(doc) if only the end is missing, or -1 when well-formed.
func errOffset(doc string) int {
	if ref.StructOK(doc) {
		return -1
	}
	// binary search is not valid (prefixes of valid docs are invalid); find the
	// longest prefix that can be completed: scan with the lenient parser.
	return ref.FirstError(doc)
}

func c02Path(c *Ctx, i int, d *c02Doc, data []byte) {
	doc := d.s
	// derive a path from the longest well-formed looking prefix: use the
	// reference parser on a repaired copy is overkill; try fixed paths.
	paths := [][]interface{}{{"a"}, {"z", 1}, {0}, {1}, {"k"}, {"want"}, {"x", "y"}, {2, "a"}, {"data", 0}}
	r := c.Rng(i)
	path := paths[r.Intn(len(paths))]
	if v, ok := ref.Parse(doc); ok {
		// valid document: choose an existing path half of the time
		if p := randomPath(r, v); p != nil && r.Bool() {
			path = p
		}
	}
	n, err := sonic.GetWithOptions(data, ast.SearchOptions{ValidateJSON: true}, path...)
	if err != nil {
		if d.valid && d.depth <= sonicMaxDepth && err != ast.ErrNotExist {
			// a wrong-kind step may legitimately be an error other than ErrNotExist; only syntax errors count
			if _, isSyn := err.(ast.SyntaxError); isSyn {
				v, _ := ref.Parse(doc)
				if v.Lookup(path) != nil {
					c.Violate(i, "GetWithOptions(ValidateJSON,path)", "syntax error on a valid document", map[string]interface{}{"doc": q(doc), "path": fmt.Sprint(path), "err": errStr(err)})
				}
			}
		}
		return
	}
	raw, rerr := n.Raw()
	if rerr != nil {
		return
	}
	if !ref.StructOK(raw) {
		c.Violate(i, "GetWithOptions(ValidateJSON,path)", "located value is not well-formed", map[string]interface{}{"doc": q(doc), "path": fmt.Sprint(path), "value": q(raw)})
		return
	}
	if !d.sok {
		off := offsetIn(data, raw)
		eo := ref.FirstError(doc)
		if off >= 0 && eo >= 0 && eo < off {
			// by design (pinned by the repository's TestGetWithInvalidUndemandedField): skipped
			// siblings are only bracket-matched. Listed as B7; the located value itself was
			// checked above.
			c.Known("B7", i, "GetWithOptions(ValidateJSON,path)", "skipped over a structural error before the located value", map[string]interface{}{"doc": q(doc), "path": fmt.Sprint(path), "value": q(raw), "error_offset": eo, "value_offset": off})
		}
	}
}

// randomPath picks a path to some node of a parsed document.
func randomPath(r *gen.Rng, v *ref.Value) []interface{} {
	var path []interface{}
	cur := v
	for depth := 0; depth < 6; depth++ {
		if len(cur.Elems) == 0 || (depth > 0 && r.Chance(1, 3)) {
			break
		}
		k := r.Intn(len(cur.Elems))
		if cur.Kind == ref.Obj {
			key := cur.Keys[k]
			// first occurrence wins
			for j, kk := range cur.Keys {
				if kk == key {
					k = j
					break
				}
			}
			path = append(path, key)
		} else {
			path = append(path, k)
		}
		cur = cur.Elems[k]
	}
	return path
}

func runC02(c *Ctx) {
	idx := 0
	next := func() (int, bool, bool) {
		i := idx
		idx++
		if c.Stop(i) {
			return i, false, true
		}
		return i, c.Begin(i), false
	}
	// Part 1: block sweep — critical byte at every offset around SIMD block sizes
	specials := []string{`\"`, `\\`, `"`, `\`, "\x00", "\n", `A`, "é", "[", "}", ","}
	L := c.N(70, 140)
	g := 0
	for kind := 0; kind < 6; kind++ {
		for n := 0; n <= L; n++ {
			for p := 0; p <= n; p += 1 {
				for si, sp := range specials {
					g++
					if !c.Mine(g) {
						continue
					}
					i, run, stop := next()
					if stop {
						return
					}
					if !run {
						continue
					}
					doc := gen.BlockDoc(kind, n, p, sp)
					c02One(c, i, doc, (n+p+si)%64)
					c.Distinct(gen.HashString(doc), len(doc) >= 2)
					c.Count("block_docs", 1)
				}
			}
		}
	}
	// Part 1b: unterminated strings of every length (all malformed)
	for n := 0; n <= 2*L+70; n++ {
		for fi, fill := range []string{"a", `\n`, "é", `\"`, "\\\\"} {
			for pi, pre := range []string{`"`, ` "`, `["`, `{"k":"`, `{"`, `[1,"`} {
				g++
				if !c.Mine(g) {
					continue
				}
				i, run, stop := next()
				if stop {
					return
				}
				if !run {
					continue
				}
				doc := pre + strings.Repeat(fill, n/len(fill)+1)[:n/len(fill)*len(fill)]
				c02One(c, i, doc, (n+fi+pi)%64)
				c.Distinct(gen.HashString(doc), len(doc) >= 2)
				c.Count("unterminated_docs", 1)
			}
		}
	}
	// Part 2: random valid documents, their mutations and truncations, soups
	N := c.N(6000, 300000)
	opts := gen.DefaultDoc
	for k := 0; k < N; k++ {
		i, run, stop := next()
		if stop {
			return
		}
		if !run {
			continue
		}
		r := c.Rng(i)
		var doc string
		kind := ""
		switch r.Intn(10) {
		case 0, 1:
			doc = r.Doc(&opts)
			kind = "valid"
		case 2, 3, 4, 5:
			doc = r.Mutate(r.Doc(&opts))
			kind = "mutated"
		case 6:
			doc = r.Mutate(r.Mutate(r.Doc(&opts)))
			kind = "mutated2"
		case 7:
			base := r.Doc(&opts)
			if r.Chance(1, 2) {
				// string contents are not judged by the lower bound: a byte that is not valid UTF-8 inside a
				// literal sends the validating configurations through their correction paths first; the cut
				// document is still structurally malformed and must be rejected
				if qs := strings.Index(base, `"`); qs >= 0 {
					if k := qs + 1 + r.Intn(len(base)-qs); k < len(base) && base[k] != '"' && base[k] != '\\' && base[k-1] != '\\' && base[k] >= 0x20 {
						inStr := strings.Count(base[:k], `"`) - strings.Count(base[:k], `\\"`) // rough: an odd count means inside a literal
						if inStr%2 == 1 {
							base = base[:k] + "\xff" + base[k+1:]
						}
					}
				}
			}
			doc = base[:r.Intn(len(base)+1)]
			kind = "truncated"
		case 8:
			doc = r.Soup(8)
			kind = "soup"
		default:
			// number spellings in context
			num := r.BadNumber()
			if r.Bool() {
				num = r.NumberLiteral()
			}
			doc = []string{"%s", "[%s]", `{"a":%s}`, `[1,%s,2]`, ` %s `, `{"a":[%s],"b":%s}`}[r.Intn(6)]
			doc = strings.ReplaceAll(doc, "%s", num)
			kind = "number"
		}
		c02One(c, i, doc, r.Intn(64))
		c.Distinct(gen.HashString(doc), len(doc) >= 2)
		c.Count("docs_"+kind, 1)
		if json.Valid([]byte(doc)) {
			c.Count("docs_that_are_valid", 1)
		} else if ref.StructOK(doc) {
			c.Count("docs_between_bounds", 1)
		} else {
			c.Count("docs_malformed", 1)
		}
		c.Sample(kind, 2, q(doc))
	}
	// Part 4: documents shaped like their typed destination (so that every value is stored by the
	// compiled element/field decoders, not skipped) with one separator defect
	shapes := []reflect.Type{reflect.TypeOf(map[string][]int(nil)), reflect.TypeOf(map[string]map[string][]string(nil)), reflect.TypeOf(map[string]struct {
		A int
		B string
		C []int
		D map[string]int
	}(nil)), reflect.TypeOf(map[string]*[]string(nil)), reflect.TypeOf([]map[string][]float64(nil)), reflect.TypeOf(map[int32][]bool(nil)),
		reflect.TypeOf([][]map[string]int(nil)), reflect.TypeOf(c02Struct{}), reflect.TypeOf(map[string]c02Struct(nil)), reflect.TypeOf([]c02Struct(nil)), reflect.TypeOf(map[string][2][]int(nil))}
	NS := c.N(4000, 100000)
	for k := 0; k < NS; k++ {
		i, run, stop := next()
		if stop {
			return
		}
		if !run {
			continue
		}
		r := c.Rng(i)
		t := shapes[r.Intn(len(shapes))]
		vo := gen.ValOpts{MaxLen: 3, NilChance: 1000}
		jb, jerr := json.Marshal(r.Value(t, &vo, 0).Interface())
		if jerr != nil {
			continue
		}
		doc := string(jb)
		pick := func(set string) int {
			var at []int
			inStr := false
			for p := 0; p < len(doc); p++ {
				switch {
				case doc[p] == '\\' && inStr:
					p++
				case doc[p] == '"':
					inStr = !inStr
				case !inStr && strings.IndexByte(set, doc[p]) >= 0:
					at = append(at, p)
				}
			}
			if len(at) == 0 {
				return -1
			}
			return at[r.Intn(len(at))]
		}
		defect := r.Intn(6)
		switch defect {
		case 0: // a comma before a closer
			if p := pick("}]"); p >= 0 {
				doc = doc[:p] + []string{",", " , ", ",\n"}[r.Intn(3)] + doc[p:]
			}
		case 1: // a comma behind an opener
			if p := pick("{["); p >= 0 {
				doc = doc[:p+1] + "," + doc[p+1:]
			}
		case 2: // a doubled comma
			if p := pick(","); p >= 0 {
				doc = doc[:p] + "," + doc[p:]
			}
		case 3: // a missing comma
			if p := pick(","); p >= 0 {
				doc = doc[:p] + " " + doc[p+1:]
			}
		case 4: // a comma for a colon
			if p := pick(":"); p >= 0 {
				doc = doc[:p] + "," + doc[p+1:]
			}
		default: // unchanged: must be accepted
		}
		sok, valid := ref.StructOK(doc), json.Valid([]byte(doc))
		c.Guard(i, "Unmarshal(shaped)", func() {
			for kc, cfg := range []sonic.API{sonic.ConfigDefault, sonic.ConfigStd} {
				api := []string{"Unmarshal", "ConfigStd.Unmarshal"}[kc] + "(" + trunc(t.String(), 60) + ")"
				dst := reflect.New(t)
				err := cfg.UnmarshalFromString(doc, dst.Interface())
				if err == nil && !sok {
					c.Violate(i, api, "accepted a structurally malformed document", q(doc))
				}
				if err != nil && valid {
					c.Violate(i, api, "rejected a document shaped like its destination that encoding/json.Valid accepts", map[string]string{"doc": q(doc), "err": errStr(err)})
				}
			}
		})
		c.Distinct(gen.HashString(t.String()+doc), true)
		c.Count("docs_shaped_like_a_typed_destination", 1)
		if !sok {
			c.Count("docs_shaped_with_a_separator_defect", 1)
		}
	}
	// Part 3: deep nesting around the documented limit
	for _, depth := range []int{4094, 4095, 4096, 4097, 5000, 9999, 10001} {
		for _, shape := range []string{"[", `{"a":`} {
			g++
			if !c.Mine(g) {
				continue
			}
			i, run, stop := next()
			if stop {
				return
			}
			if !run {
				continue
			}
			closer := "]"
			if shape != "[" {
				closer = "}"
			}
			doc := strings.Repeat(shape, depth) + "1" + strings.Repeat(closer, depth)
			c02One(c, i, doc, 0)
			c.Count("docs_deep", 1)
		}
	}
}
