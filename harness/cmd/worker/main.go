// Command worker is the only program of the harness that links sonic. It runs
// one batch of one property's workload and writes an event log (see ctx.go).
package main

import (
	"flag"
	"fmt"
	"os"
	"sort"
)

type workload func(c *Ctx)

var workloads = map[string]workload{}

// witnesses: pinned witnesses of known findings. Each returns true when the
// recorded wrong behaviour is still observed.
var witnesses = map[string]func() (bool, string){}

// regressions: per property, witnesses of defects that were repaired in /repo
// (known_findings.json "fixed"); run at the start of batch 0 of every run.
var regressions = map[string][]string{
	"C03": {"B35", "B35h"},
	"C09": {"B35h", "B4"},
	"C10": {"B44"},
	"C16": {"B45"},
}

func main() {
	flag.Parse()
	if *fWitness != "" {
		w, ok := witnesses[*fWitness]
		if !ok {
			fmt.Println("NOWITNESS")
			os.Exit(3)
		}
		rep, what := w()
		if rep {
			fmt.Println("REPRO", what)
		} else {
			fmt.Println("NOREPRO", what)
		}
		return
	}
	w, ok := workloads[*fProp+"/"+*fMode]
	if !ok {
		w, ok = workloads[*fProp]
	}
	if !ok {
		var ks []string
		for k := range workloads {
			ks = append(ks, k)
		}
		sort.Strings(ks)
		fmt.Fprintln(os.Stderr, "worker: unknown workload", *fProp, *fMode, "have", ks)
		os.Exit(3)
	}
	c := newCtx()
	c.emit("N", map[string]interface{}{"msg": "config", "detail": observedConfig()})
	if c.Batch == 0 && c.Only < 0 && c.Start == 0 && os.Getenv("SONIC_SYNC_GC") == "" {
		// (not under SONIC_SYNC_GC: a collection between all opcodes makes the looping witnesses take minutes)
		// witnesses of repaired defects of this property: they must stay repaired
		for _, id := range regressions[c.Prop] {
			if rep, what := witnesses[id](); rep {
				c.Violate(-1, "regression", "the witness of the repaired defect "+id+" fails again", what)
			}
			c.Count("regression_witnesses_run", 1)
		}
	}
	w(c)
	c.Finish()
}

// observedConfig records what process-level configuration this worker really
// runs under, so that a cross-configuration diff can detect comparing a
// configuration with itself.
func observedConfig() map[string]string {
	m := map[string]string{}
	for _, k := range []string{"SONIC_MODE", "SONIC_USE_OPTDEC", "SONIC_USE_FASTMAP", "SONIC_ENCODER_USE_VM", "SONIC_SYNC_GC", "GOGC", "GODEBUG", "VERIF_POINTS", "VERIF_C10", "GOMAXPROCS"} {
		if v := os.Getenv(k); v != "" {
			m[k] = v
		}
	}
	for k, v := range bridgeConfig() {
		m[k] = v
	}
	return m
}
