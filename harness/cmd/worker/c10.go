package main

import (
	"encoding/json"
	"fmt"
	"os"
	"reflect"
	"regexp"
	"runtime"
	"runtime/debug"
	"strconv"
	"strings"
	"sync/atomic"
	"time"

	"github.com/bytedance/sonic"

	"verifharness/cat"
	"verifharness/gen"
)

// C10: generated code cooperates with the Go runtime.
//
// The same seeded case list (encode / decode calls over the callback types of
// cat/c10.go and over the C01/C03 generators' random types) is executed in a
// calm process and in processes in which the Go runtime is made to collect,
// clobber freed memory, re-check its own marking, grow, move, shrink and walk
// stacks while sonic's generated frames are live: the process environment
// (GOGC=1, GODEBUG=gccheckmark=1,clobberfree=1, SONIC_SYNC_GC=1) is chosen by
// the orchestrator, the in-process stressors by VERIF_C10. The monitors:
//   - the Go runtime's own fatal self-checks (worker death = violation),
//   - digests equal to the calm process' (offline, cross-process),
//   - decoded values and encoded outputs are retained and re-read after many
//     collections; the same value is re-encoded later and must give the same text.
func init() {
	workloads["C10"] = runC10
	witnesses["B44"] = func() (bool, string) {
		// a full [3]*int at the tail of an object that fills the 640-byte size class, decoded while
		// collections are running: the generated code must not hand the write barrier a pointer past the array
		type tail struct {
			Pad [76]int64 `json:"-"`
			A   [3]*int   `json:"a"`
		}
		stop := make(chan struct{})
		defer close(stop)
		go func() {
			for {
				select {
				case <-stop:
					return
				default:
					runtime.GC()
				}
			}
		}()
		old := debug.SetGCPercent(1)
		defer debug.SetGCPercent(old)
		bad := ""
		for i := 0; i < 30000 && bad == ""; i++ {
			func() {
				defer func() {
					if r := recover(); r != nil {
						bad = fmt.Sprint(r)
					}
				}()
				v := new(tail)
				if err := sonic.UnmarshalString(`{"a":[1,2,3]}`, v); err != nil || v.A[2] == nil || *v.A[2] != 3 {
					bad = fmt.Sprintf("err=%v value=%v", err, v.A)
				}
			}()
		}
		return bad != "", "30000 decodes of a full tail array under forced collections: " + bad
	}
}

var c10LastZero = regexp.MustCompile(`(^|[^0-9.eE+\-])-?0$`)

var c10Action int32 // what cat.Stress does during the current call
var c10Hits int64
var c10Sink interface{}

var c10ActionNames = []string{"none", "GC", "GC+churn", "deep-recursion", "stack-trace", "yield+alloc", "handoff-GC", "nested-sonic", "GC+recursion"}

//go:noinline
func c10Recurse(n int, pad *[96]byte) int {
	var local [96]byte
	local[n%96] = byte(n)
	if n == 0 {
		return int(local[0]) + int(pad[0])
	}
	return c10Recurse(n-1, &local) + int(local[1])
}

func c10Churn(k int) {
	var keep [][]byte
	for i := 0; i < k; i++ {
		sz := []int{8, 16, 24, 32, 48, 64, 80, 96, 128, 256, 512}[i%11]
		b := make([]byte, sz)
		for j := range b {
			b[j] = 0xA5
		}
		if i%3 == 0 {
			keep = append(keep, b)
		}
		// pointer-carrying objects too: a recycled slot then holds plausible pointers
		p := &struct {
			a, b *[]byte
			c    string
		}{&b, &b, "churn"}
		if i%5 == 0 {
			c10Sink = p
		}
	}
	c10Sink = keep
}

type c10Small struct {
	A int               `json:"a"`
	B []string          `json:"b"`
	C map[string]*int   `json:"c"`
	D *c10Small         `json:"d,omitempty"`
	E map[cat.GKey]bool `json:"-"`
}

func c10Stress(where string) {
	atomic.AddInt64(&c10Hits, 1)
	switch atomic.LoadInt32(&c10Action) {
	case 1:
		runtime.GC()
	case 2:
		runtime.GC()
		c10Churn(3000)
		runtime.GC()
	case 3:
		var pad [96]byte
		c10Sink = c10Recurse(3000, &pad) // ~600 KiB of frames: the stack is copied with the generated frames on it
	case 4:
		_ = debug.Stack()
		pcs := make([]uintptr, 64)
		n := runtime.Callers(0, pcs)
		fr := runtime.CallersFrames(pcs[:n])
		for {
			_, more := fr.Next()
			if !more {
				break
			}
		}
		buf := make([]byte, 1<<16)
		runtime.Stack(buf, true)
	case 5:
		runtime.Gosched()
		c10Churn(200)
	case 6:
		// another goroutine collects while this one is parked with generated frames on its stack
		done := make(chan struct{})
		go func() { runtime.GC(); runtime.GC(); close(done) }()
		<-done
	case 7:
		// re-entrancy: generated code -> callback -> generated code
		one := 1
		v := c10Small{A: 7, B: []string{"x", "y"}, C: map[string]*int{"k": &one}, D: &c10Small{A: 8}}
		out, err := sonic.ConfigStd.Marshal(&v)
		var back c10Small
		err2 := sonic.ConfigStd.Unmarshal(out, &back)
		if err != nil || err2 != nil || back.A != 7 || len(back.B) != 2 || back.D == nil || back.D.A != 8 || back.C["k"] == nil || *back.C["k"] != 1 {
			panic(fmt.Sprintf("nested sonic call inside %s gave %s / %+v (%v %v)", where, out, back, err, err2))
		}
	case 8:
		runtime.GC()
		var pad [96]byte
		c10Sink = c10Recurse(1500, &pad)
		c10Churn(500)
	}
}

// onFreshStack runs f on a new goroutine after using up `pad` frames, so that
// the entry into generated code happens at different distances from the end of a
// small stack.
func onFreshStack(pad int, f func()) (panicked interface{}) {
	done := make(chan struct{})
	go func() {
		defer close(done)
		defer func() {
			if r := recover(); r != nil {
				panicked = fmt.Sprintf("%v\n%s", r, trunc(string(debug.Stack()), 2500))
			}
		}()
		c10Pad(pad, f)
	}()
	<-done
	return
}

//go:noinline
func c10Pad(n int, f func()) {
	var local [64]byte
	local[n%64] = 1
	if n <= 0 {
		f()
	} else {
		c10Pad(n-1, f)
	}
	c10Sink = local[0]
}

type c10Kept struct {
	i      int
	what   string
	val    reflect.Value // decoded destination (pointer)
	dump   uint64
	out    []byte // encoded output
	outSum uint64
	arg    interface{} // value to re-encode
	desc   string
}

var c10TypeOpts = gen.TypeOpts{MaxDepth: 4, Catalogue: append(append([]reflect.Type{}, encCat...), cat.Stressful...), Erroring: encErr, Omitzero: true}

func runC10(c *Ctx) {
	stress := os.Getenv("VERIF_C10") // "", gc, stack
	decOnly := c.Mode == "dec"
	if stress != "" {
		cat.Stress = c10Stress
	}
	stop := make(chan struct{})
	var bgGC, bgStack int64
	if stress == "gc" || stress == "stack" {
		go func() {
			for {
				select {
				case <-stop:
					return
				default:
				}
				runtime.GC()
				atomic.AddInt64(&bgGC, 1)
				time.Sleep(200 * time.Microsecond)
			}
		}()
	}
	if stress == "stack" {
		// SIGPROF at a high rate (tracebacks start at arbitrary PCs) and whole-process stack dumps
		// (no reader: the runtime drops samples once its buffer is full, the signal handler still
		// unwinds the interrupted stack on every tick)
		runtime.SetCPUProfileRate(4000)
		defer runtime.SetCPUProfileRate(0)
		go func() {
			buf := make([]byte, 1<<20)
			for {
				select {
				case <-stop:
					return
				default:
				}
				runtime.Stack(buf, true)
				atomic.AddInt64(&bgStack, 1)
				time.Sleep(300 * time.Microsecond)
			}
		}()
	}
	defer close(stop)

	var ring []*c10Kept
	check := func(k *c10Kept) {
		if k.val.IsValid() {
			if d := gen.HashString(gen.Dump(k.val.Elem())); d != k.dump {
				c.Violate(k.i, k.what, "a decoded value changed after it was returned (re-read after later collections)", map[string]interface{}{"case": k.desc, "now": trunc(gen.Dump(k.val.Elem()), 600)})
			}
			c.Count("decoded_values_reread", 1)
		}
		if k.out != nil {
			if gen.HashBytes(k.out) != k.outSum {
				c.Violate(k.i, k.what, "an encoded output changed after it was returned (re-read after later collections)", map[string]interface{}{"case": k.desc, "now": q(string(k.out))})
			}
			c.Count("outputs_reread", 1)
		}
		if k.arg != nil {
			var out []byte
			var err error
			atomic.StoreInt32(&c10Action, 0)
			if p := onFreshStack(0, func() { out, err = sonic.ConfigStd.Marshal(k.arg) }); p != nil {
				c.Violate(k.i, k.what, "panic when the value was encoded again later", map[string]interface{}{"case": k.desc, "panic": p})
			} else if err == nil && gen.HashBytes(out) != k.outSum {
				c.Violate(k.i, k.what, "the same value encoded again after later collections gives another text", map[string]interface{}{"case": k.desc, "first": q(string(k.out)), "later": q(string(out))})
			}
			c.Count("values_reencoded", 1)
		}
	}
	keep := func(k *c10Kept) {
		ring = append(ring, k)
		if len(ring) > 40 {
			check(ring[0])
			ring = ring[1:]
		}
	}

	N := c.N(500, 20000)
	if decOnly {
		N = c.N(50, 3000)
	}
	for i := 0; i < N; i++ {
		if c.Stop(i) {
			break
		}
		if !c.Begin(i) {
			continue
		}
		r := c.Rng(i)
		action := int32(r.Intn(len(c10ActionNames)))
		pad := r.Intn(110)
		atomic.StoreInt32(&c10Action, action)
		kind := r.Intn(4)
		if decOnly {
			kind = 2 + r.Intn(2)
		}
		var dig []string
		c10Doc := ""
		switch kind {
		case 0, 1:
			// encode; the callback types half of the time
			var cs *c03Case
			if kind == 0 && i%121 == 7 {
				// a big map with TextMarshaler keys: sorted-key iteration keeps every key text alive in one
				// buffer while the callbacks (and the collections they trigger) run
				n := r.Range(1030, 1300)
				m := make(map[cat.GKey]string, n)
				for k := 0; k < n; k++ {
					m[cat.GKey{A: k, B: r.Intn(1000)}] = "v" + strconv.Itoa(k)
				}
				if action == 2 || action == 8 {
					action = 1 // (thousands of callbacks: the cheaper collecting action)
					atomic.StoreInt32(&c10Action, action)
				}
				cs = &c03Case{t: reflect.TypeOf(m), v: reflect.ValueOf(m), how: r.Intn(2)}
				cs.label = []string{"value", "pointer"}[cs.how]
				c.Count("big_text_key_maps", 1)
			} else if kind == 0 {
				t := cat.Stressful[r.Intn(len(cat.Stressful))]
				vo := gen.ValOpts{MaxLen: 4, NilChance: 6}
				cs = &c03Case{t: t, v: r.Value(t, &vo, 0), how: r.Intn(4)}
				cs.label = []string{"value", "pointer", "in-[]interface{}", "in-map[string]interface{}"}[cs.how]
			} else {
				cs = genC03CaseR(r)
				if r.Chance(1, 3) {
					cs.t = r.Type(&c10TypeOpts, 0)
					vo := c03ValOpts
					vo.NaN, vo.BadNumber = false, false
					cs.v = r.Value(cs.t, &vo, 0)
				}
			}
			arg := cs.arg()
			desc := fmt.Sprintf("encode %s %s action=%s pad=%d", trunc(gen.Describe(cs.t), 200), cs.label, c10ActionNames[action], pad)
			c.Cur("case %d %s", i, desc)
			c.Vf("CASE %s\nVALUE %s", desc, trunc(gen.Dump(cs.v), 3000))
			var out []byte
			var err error
			if p := onFreshStack(pad, func() { out, err = sonic.ConfigStd.Marshal(arg) }); p != nil {
				c.Violate(i, "Marshal", "panic", map[string]interface{}{"case": desc, "panic": p})
				dig = append(dig, "PANIC")
				break
			}
			c.Vf("OUT %s ERR %v", trunc(string(out), 3000), errStr(err))
			if err != nil {
				dig = append(dig, "E")
			} else {
				dig = append(dig, "O"+h64(string(out)))
				keep(&c10Kept{i: i, what: "Marshal", out: out, outSum: gen.HashBytes(out), arg: arg, desc: desc})
				// and back: the text decoded into a fresh value of the type
				c10Doc = string(out)
				d := reflect.New(cs.t)
				in := append([]byte(nil), out...)
				var derr error
				if p := onFreshStack(pad/2, func() { derr = sonic.ConfigStd.Unmarshal(in, d.Interface()) }); p != nil {
					c.Violate(i, "Unmarshal", "panic", map[string]interface{}{"case": desc, "panic": p})
					dig = append(dig, "PANIC")
					break
				}
				in = nil
				if derr != nil {
					dig = append(dig, "e")
				} else {
					dmp := gen.Dump(d.Elem())
					dig = append(dig, "V"+h64(dmp))
					keep(&c10Kept{i: i, what: "Unmarshal", val: d, dump: gen.HashString(dmp), desc: desc})
				}
			}
			c.Distinct(gen.HashString(desc+gen.Dump(cs.v)), true)
			c.Count("encode_cases", 1)
		default:
			var cs *c01Case
			if kind == 2 {
				// a document for a callback type: encoding/json's text of a random value, remixed by the C01 machinery
				t := cat.Stressful[r.Intn(len(cat.Stressful))]
				cs = c10DecCase(c, r, t)
			} else {
				cs = genC01CaseR(c, r)
			}
			desc := fmt.Sprintf("decode %s %s prefill=%v action=%s pad=%d", trunc(gen.Describe(cs.t), 200), cs.cfg.name, cs.prefill, c10ActionNames[action], pad)
			c.Cur("case %d %s doc=%s", i, desc, q(cs.doc))
			c.Vf("CASE %s\nDOC %q", desc, cs.doc)
			c10Doc = cs.doc
			d := newDst(cs)
			in := []byte(cs.doc)
			var derr error
			if p := onFreshStack(pad, func() { derr = cs.cfg.api.Unmarshal(in, d.Interface()) }); p != nil {
				c.Violate(i, "Unmarshal", "panic", map[string]interface{}{"case": desc, "doc": q(cs.doc), "panic": p})
				dig = append(dig, "PANIC")
				break
			}
			in = nil // from here on only the decoded value keeps whatever it refers to alive
			dmp := gen.Dump(d.Elem())
			c.Vf("VALUE %s ERR %v", trunc(dmp, 3000), errStr(derr))
			if derr != nil {
				dig = append(dig, "e"+h64(dmp))
			} else {
				dig = append(dig, "V"+h64(dmp))
			}
			keep(&c10Kept{i: i, what: "Unmarshal", val: d, dump: gen.HashString(dmp), desc: desc})
			c.Distinct(gen.HashString(desc+cs.doc), len(cs.doc) >= 2)
			c.Count("decode_cases", 1)
		}
		c.Count("action_"+c10ActionNames[action], 1)
		flags := ""
		if c10Doc != "" && c10LastZero.MatchString(c10Doc) {
			// known finding B42: a number token 0 / -0 at the very end of the input makes the native
			// scanner read one byte past the end; what it finds there can change the result
			flags = " B42"
		}
		c.Digest(i, strings.Join(dig, ".")+flags)
		if i < 6 {
			c.Sample(fmt.Sprint("kind", kind), 1, map[string]interface{}{"case": i, "digest": strings.Join(dig, ".")})
		}
	}
	for _, k := range ring {
		check(k)
	}
	var ms runtime.MemStats
	runtime.ReadMemStats(&ms)
	c.Count("callback_stress_hits", atomic.LoadInt64(&c10Hits))
	c.Count("gc_cycles_in_process", int64(ms.NumGC))
	c.Count("background_forced_collections", atomic.LoadInt64(&bgGC))
	c.Count("background_all_goroutine_stack_dumps", atomic.LoadInt64(&bgStack))
}

// c10DecCase: a decode case for a callback type.
func c10DecCase(c *Ctx, r *gen.Rng, t reflect.Type) *c01Case {
	vo := gen.ValOpts{MaxLen: 4, NilChance: 6}
	v := r.Value(t, &vo, 0)
	old := cat.Stress
	cat.Stress = func(string) {}
	b, err := json.Marshal(v.Interface()) // (not sonic: decode-only processes must not encode)
	cat.Stress = old
	doc := string(b)
	if err != nil {
		doc = "{}"
	}
	cs := &c01Case{t: t, cfg: decCfgs[r.Intn(2)], doc: doc, exact: true, prefill: r.Chance(1, 3), seedDst: r.U64(), label: "self-marshal"}
	if r.Chance(1, 4) {
		cs.doc = r.Mutate(doc)
	}
	if !cs.cfg.std && !cleanStrings(cs.doc) {
		cs.cfg = decCfgs[0]
	}
	return cs
}
