package main

import (
	"encoding/json"
	"fmt"
	"os"
	"reflect"
	"runtime"
	"sort"
	"strconv"
	"strings"

	"github.com/bytedance/sonic"
	"github.com/bytedance/sonic/option"

	"verifharness/cat"
	dupa "verifharness/cat/a/dup"
	dupb "verifharness/cat/b/dup"
	"verifharness/gen"
)

// C09: results never depend on history.
//
// Every batch is one fresh process = one history. All batches of a run execute
// the same PROBE list (derived from the seed only, not from the batch): encode
// and decode calls over types chosen to be sensitive to what is cached (types
// printing identically, recursive types, types nested beyond the inline depth,
// >50 fields, pointer-receiver marshalers at inlined depths, random types). A
// history is a prelude (Pretouch/PretouchMany with option sets, thousands of
// throw-away types, ...) plus the order in which the probes are executed.
// Batch 0 is the baseline history (no prelude, list order). Each probe emits a
// digest; the orchestrator compares every history's digests with the
// baseline's. In-process: every probe is executed a second time at the end of
// the history and must give what it gave the first time.
func init() {
	workloads["C09"] = runC09
	witnesses["B4"] = func() (bool, string) {
		// two distinct types that print identically, compiled into one module
		t1 := func() reflect.Type {
			type W struct {
				A int    `json:"a"`
				B string `json:"b"`
			}
			return reflect.TypeOf(W{})
		}()
		t2 := func() reflect.Type {
			type W struct {
				B []string `json:"b"`
				A float64  `json:"a"`
			}
			return reflect.TypeOf(W{})
		}()
		if err := sonic.PretouchMany([]reflect.Type{t1, t2}); err != nil {
			return false, "PretouchMany failed: " + err.Error()
		}
		v1, v2 := reflect.New(t1), reflect.New(t2)
		e1 := sonic.UnmarshalString(`{"a":7,"b":"x"}`, v1.Interface())
		e2 := sonic.UnmarshalString(`{"a":1.5,"b":["y","z"]}`, v2.Interface())
		o1, e3 := sonic.Marshal(v1.Interface())
		o2, e4 := sonic.Marshal(v2.Interface())
		got := fmt.Sprintf("%s %s %v %v %v %v", o1, o2, e1 != nil, e2 != nil, e3 != nil, e4 != nil)
		want := `{"a":7,"b":"x"} {"b":["y","z"],"a":1.5} false false false false`
		return got != want, "PretouchMany of two same-named types, then Unmarshal+Marshal of each: " + got
	}
}

type c09Probe struct {
	enc   *c03Case
	dec   *c01Case
	group string
	t     reflect.Type
}

func (p *c09Probe) desc() string {
	if p.enc != nil {
		return "encode " + p.group + " " + p.enc.label + " " + trunc(gen.Describe(p.t), 160)
	}
	return "decode " + p.group + " " + p.dec.cfg.name + " " + trunc(gen.Describe(p.t), 160)
}

// run executes the probe and returns (full result, error-or-not).
func (p *c09Probe) run() (res string) {
	defer func() {
		if r := recover(); r != nil {
			res = fmt.Sprintf("PANIC %v", r)
		}
	}()
	if p.enc != nil {
		out, err := sonic.ConfigStd.Marshal(p.enc.arg())
		if err != nil {
			return "ERR"
		}
		return "OK " + string(out)
	}
	d := newDst(p.dec)
	err := p.dec.cfg.api.Unmarshal([]byte(p.dec.doc), d.Interface())
	if err != nil {
		// the error too: which mismatch is reported, and where, is part of the result
		return "ERR " + gen.Dump(d.Elem()) + " | " + trunc(err.Error(), 400)
	}
	return "OK " + gen.Dump(d.Elem())
}

// std gives what encoding/json does for the probe (only for the evidence
// counters: agreement with encoding/json is the business of C01/C03).
func (p *c09Probe) std() (res string) {
	defer func() {
		if r := recover(); r != nil {
			res = "PANIC"
		}
	}()
	if p.enc != nil {
		out, err := json.Marshal(p.enc.arg())
		if err != nil {
			return "ERR"
		}
		return "OK " + string(out)
	}
	d := newDst(p.dec)
	if err := stdUnmarshal(p.dec, d.Interface()); err != nil {
		return "ERR"
	}
	return "OK " + gen.Dump(d.Elem())
}

var c09Special = []struct {
	group string
	t     reflect.Type
}{
	{"same-name", reflect.TypeOf(dupa.T{})}, {"same-name", reflect.TypeOf(dupb.T{})},
	{"same-name", reflect.TypeOf(dupa.Inner{})}, {"same-name", reflect.TypeOf(dupb.Inner{})},
	{"same-name", reflect.TypeOf(dupa.Outer{})}, {"same-name", reflect.TypeOf(dupb.Outer{})},
	{"same-name", reflect.TypeOf([]dupa.T{})}, {"same-name", reflect.TypeOf([]dupb.T{})},
	{"same-name", reflect.TypeOf(map[string]dupa.Outer{})}, {"same-name", reflect.TypeOf(map[string]dupb.Outer{})},
	{"same-name", cat.LocalT1()}, {"same-name", cat.LocalT2()}, {"same-name", cat.LocalT3()}, {"same-name", cat.LocalT4()},
	{"same-name", reflect.SliceOf(cat.LocalT1())}, {"same-name", reflect.SliceOf(cat.LocalT2())},
	{"deep", reflect.TypeOf(cat.D1{})}, {"deep", reflect.TypeOf(cat.D2{})}, {"deep", reflect.TypeOf(cat.D4{})}, {"deep", reflect.TypeOf([]cat.D3{})},
	{"deep", reflect.TypeOf(cat.OmitWrap{})}, {"deep", reflect.TypeOf(cat.OmitAll{})},
	{"recursive", reflect.TypeOf(cat.Tree{})}, {"recursive", reflect.TypeOf(cat.List{})}, {"recursive", reflect.TypeOf(cat.Ping{})}, {"recursive", reflect.TypeOf(cat.Pong{})},
	{"recursive", reflect.TypeOf([]*cat.Tree{})}, {"recursive", reflect.TypeOf(map[string]cat.List{})},
	{"big", reflect.TypeOf(cat.Big{})}, {"big", reflect.TypeOf([]cat.Big{})},
	{"embed", reflect.TypeOf(cat.Embeds{})}, {"embed", reflect.TypeOf(cat.Mid{})}, {"embed", reflect.TypeOf(cat.EmbMarshaler{})}, {"embed", reflect.TypeOf(cat.Conflict{})},
	{"iface", reflect.TypeOf(cat.Ifaces{})}, {"iface", reflect.TypeOf(cat.HasDefPtr{})}, {"iface", reflect.TypeOf(cat.MapKeys{})}, {"iface", reflect.TypeOf(cat.PtrMarsh{})},
	{"omit", reflect.TypeOf(cat.OmitFlat{})}, {"omit", reflect.TypeOf(cat.OmitHolder{})}, {"omit", reflect.TypeOf([]cat.OmitFlat{})}, {"omit", reflect.TypeOf(map[string]cat.OmitHolder{})},
	{"pv", cat.PVSafe[0]}, {"pv", cat.PVSafe[1]}, {"pv", cat.PVSafe[2]}, {"pv", reflect.SliceOf(cat.PVSafe[0])}, {"pv", reflect.MapOf(reflect.TypeOf(""), cat.PVSafe[0])},
}

var c09List []*c09Probe

func c09Probes(c *Ctx) []*c09Probe {
	if c09List != nil {
		return c09List
	}
	base := gen.Mix(c.Seed, gen.HashString("C09probes"))
	k := uint64(0)
	rng := func() *gen.Rng { k++; return gen.New(base, k) }
	var ps []*c09Probe
	reps := c.N(2, 6)
	for _, sp := range c09Special {
		for rep := 0; rep < reps; rep++ {
			r := rng()
			vo := gen.ValOpts{MaxLen: 4, NilChance: 6, Catalogue: encCat}
			v := r.Value(sp.t, &vo, 0)
			for how := 0; how < 4; how++ {
				if how >= 2 && rep > 0 {
					continue
				}
				ps = append(ps, &c09Probe{group: sp.group, t: sp.t, enc: &c03Case{t: sp.t, v: v, how: how, label: []string{"value", "pointer", "in-[]interface{}", "in-map[string]interface{}"}[how]}})
			}
			// decode: encoding/json's text of the value, as it is and remixed
			doc := "{}"
			if b, err := json.Marshal(v.Interface()); err == nil {
				doc = string(b)
			}
			for _, ci := range []int{0, 1} {
				cs := &c01Case{t: sp.t, cfg: decCfgs[ci], doc: doc, exact: true, prefill: rep%2 == 1 && !typeHas(sp.t, func(t reflect.Type) bool { return t.Kind() == reflect.Map }), seedDst: r.U64(), label: "std-marshal"}
				if !cs.cfg.std && !cleanStrings(cs.doc) {
					cs.cfg = decCfgs[0]
				}
				ps = append(ps, &c09Probe{group: sp.group, t: sp.t, dec: cs})
			}
		}
	}
	// random types and values/documents from the C03/C01 generators
	nr := c.N(90, 500)
	for i := 0; i < nr; i++ {
		e := genC03CaseR(rng())
		ps = append(ps, &c09Probe{group: "random", t: e.t, enc: e})
		d := genC01CaseR(c, rng())
		ps = append(ps, &c09Probe{group: "random", t: d.t, dec: d})
	}
	c09List = ps
	return ps
}

// c09Types: the distinct top-level types of the probes, in list order.
func c09Types(ps []*c09Probe) (all []reflect.Type, pv map[reflect.Type]bool) {
	seen := map[reflect.Type]bool{}
	pv = map[reflect.Type]bool{}
	for _, p := range ps {
		if p.group == "pv" {
			pv[p.t] = true
		}
		if !seen[p.t] {
			seen[p.t] = true
			all = append(all, p.t)
		}
	}
	return
}

func c09Filler(c *Ctx, n int, enc, dec bool, tag string) {
	for k := 0; k < n; k++ {
		t := reflect.StructOf([]reflect.StructField{
			{Name: fmt.Sprintf("Fill_%s_%d", tag, k), Type: reflect.TypeOf(0), Tag: reflect.StructTag(fmt.Sprintf(`json:"f%d"`, k))},
			{Name: "S", Type: reflect.TypeOf(""), Tag: `json:"s,omitempty"`},
		})
		v := reflect.New(t)
		v.Elem().Field(0).SetInt(int64(k))
		if enc {
			out, err := sonic.Marshal(v.Interface())
			want := fmt.Sprintf(`{"f%d":%d}`, k, k)
			if err != nil || string(out) != want {
				c.Violate(-1, "Marshal", "a throw-away type of the prelude was encoded wrongly", map[string]interface{}{"n": k, "got": string(out), "want": want, "err": errStr(err)})
				return
			}
		}
		if dec {
			d := reflect.New(t)
			err := sonic.UnmarshalString(fmt.Sprintf(`{"f%d":%d,"s":"x"}`, k, k+1), d.Interface())
			if err != nil || d.Elem().Field(0).Int() != int64(k+1) || d.Elem().Field(1).String() != "x" {
				c.Violate(-1, "Unmarshal", "a throw-away type of the prelude was decoded wrongly", map[string]interface{}{"n": k, "got": gen.Dump(d.Elem()), "err": errStr(err)})
				return
			}
		}
	}
	c.Count("prelude_throwaway_types", int64(n))
}

const c09Kinds = 17

func runC09(c *Ctx) {
	ps := c09Probes(c)
	types, pv := c09Types(ps)
	r := gen.New(gen.Mix(c.Seed, gen.HashString("C09history"), uint64(c.Batch)), 7)
	order := make([]int, len(ps))
	for i := range order {
		order[i] = i
	}
	shuffle := func() {
		for k := len(order) - 1; k > 0; k-- {
			j := r.Intn(k + 1)
			order[k], order[j] = order[j], order[k]
		}
	}
	hk := 0
	if c.Batch > 0 {
		hk = (c.Batch-1)%(c09Kinds-1) + 1
	}
	var hist []string
	note := func(f string, a ...interface{}) { hist = append(hist, fmt.Sprintf(f, a...)) }
	pretouched := 0
	// the compile options the property quantifies over (EncOnlyOmitNull is a documented
	// change of the encoding itself and therefore not a "history")
	randOpts := func(forPV bool) ([]option.CompileOption, string) {
		var o []option.CompileOption
		s := ""
		if r.Chance(2, 3) {
			d := []int{1, 2, 3, 4, 10}[r.Intn(5)]
			o = append(o, option.WithCompileMaxInlineDepth(d))
			s += fmt.Sprintf("inline=%d ", d)
		}
		if r.Chance(2, 3) {
			d := []int{0, 1, 2, 5}[r.Intn(4)]
			o = append(o, option.WithCompileRecursiveDepth(d))
			s += fmt.Sprintf("recursive=%d", d)
		}
		return o, s
	}
	hasPV := func(ts []reflect.Type) bool {
		for _, t := range ts {
			if pv[t] {
				return true
			}
		}
		return false
	}
	many := func(ts []reflect.Type) {
		o, s := randOpts(hasPV(ts))
		err := sonic.PretouchMany(ts, o...)
		pretouched += len(ts)
		note("PretouchMany(%d types, %s) err=%v", len(ts), s, err != nil)
	}
	switch hk {
	case 0:
		note("baseline: no prelude, probes in list order")
	case 1:
		shuffle()
		note("probes in shuffled order")
	case 2:
		sort.Sort(sort.Reverse(sort.IntSlice(order)))
		note("probes in reverse order")
	case 3, 4:
		// pointer-passing probes before value-passing ones, or the other way round
		shuffle()
		first := 1
		if hk == 4 {
			first = 0
		}
		sort.SliceStable(order, func(a, b int) bool {
			ka, kb := 2, 2
			if e := ps[order[a]].enc; e != nil {
				ka = e.how
			}
			if e := ps[order[b]].enc; e != nil {
				kb = e.how
			}
			return (ka == first) && (kb != first)
		})
		note("encode probes passing how=%d first, rest shuffled", first)
	case 5, 6:
		shuffle()
		sort.SliceStable(order, func(a, b int) bool {
			ea, eb := ps[order[a]].enc != nil, ps[order[b]].enc != nil
			if hk == 5 {
				return !ea && eb
			}
			return ea && !eb
		})
		note("decode-first=%v, shuffled within", hk == 5)
	case 7:
		many(types)
		note("then probes in list order")
	case 8:
		ts := append([]reflect.Type{}, types...)
		for k := len(ts) - 1; k > 0; k-- {
			j := r.Intn(k + 1)
			ts[k], ts[j] = ts[j], ts[k]
		}
		for len(ts) > 0 {
			n := r.Range(1, 40)
			if n > len(ts) {
				n = len(ts)
			}
			many(ts[:n])
			ts = ts[n:]
		}
		shuffle()
		note("then probes shuffled")
	case 9:
		// one by one, random subset, random options each
		for _, k := range r.Perm(len(types)) {
			if r.Chance(1, 2) {
				continue
			}
			o, s := randOpts(pv[types[k]])
			err := sonic.Pretouch(types[k], o...)
			pretouched++
			if len(hist) < 12 {
				note("Pretouch(%s, %s) err=%v", trunc(gen.Describe(types[k]), 60), s, err != nil)
			}
		}
		shuffle()
		note("... then probes shuffled")
	case 10:
		c09Filler(c, 2100, true, true, "x")
		shuffle()
		note("2100 throw-away types through both caches (first rehash), then probes shuffled")
	case 11:
		c09Filler(c, 4400, true, false, "e")
		note("4400 throw-away types through the encoder cache (two rehashes), then probes in list order")
	case 12:
		c09Filler(c, 4400, false, true, "d")
		note("4400 throw-away types through the decoder cache (two rehashes), then probes in list order")
	case 13:
		// pointer types first
		var pt []reflect.Type
		for _, t := range types {
			if t.Kind() != reflect.Ptr {
				pt = append(pt, reflect.PtrTo(t))
			}
		}
		many(pt)
		sort.Sort(sort.Reverse(sort.IntSlice(order)))
		note("pointer types pretouched, probes in reverse order")
	case 14:
		// probes interleaved with throw-away types and pretouches of what comes later
		shuffle()
		note("probes shuffled, interleaved with throw-away types and Pretouch of later probe types")
	case 16:
		// A documented compile option that changes the encoding of the type it is given to:
		// WithCompileEncOnlyOmitNull. It is applied to a type that is NOT a probe but inlines the
		// same struct types as probes do (by value, within the inline depth, so that none of them
		// gets a program of its own from this call): the probes must not notice.
		err := sonic.Pretouch(reflect.TypeOf(cat.OmitOther{}), option.WithCompileEncOnlyOmitNull(true))
		out, err2 := sonic.ConfigStd.Marshal(cat.OmitOther{})
		pretouched++
		shuffle()
		note("Pretouch(OmitOther, EncOnlyOmitNull) err=%v, Marshal(OmitOther{})=%s err=%v, then probes shuffled", err != nil, out, err2 != nil)
	case 15:
		// everything in one module, outermost types last, lowest inline depth
		ts := append([]reflect.Type{}, types...)
		sort.SliceStable(ts, func(a, b int) bool { return len(ts[a].String()) < len(ts[b].String()) })
		var ts2 []reflect.Type
		for _, t := range ts {
			ts2 = append(ts2, t)
		}
		err := sonic.PretouchMany(ts2, option.WithCompileMaxInlineDepth(1), option.WithCompileRecursiveDepth(r.Intn(4)))
		pretouched += len(ts2)
		note("PretouchMany(%d types, inline=1) err=%v, probes in list order", len(ts2), err != nil)
	}
	c.emit("N", map[string]interface{}{"msg": "history", "detail": strings.Join(hist, "; ")})
	c.Count("prelude_pretouched_types", int64(pretouched))
	c.Count("history_kind_"+strconv.Itoa(hk), 1)

	if g := os.Getenv("VERIF_C09_GROUP"); g != "" {
		// triage aid: only the probes of one group (in this history's order)
		var o2 []int
		for _, i := range order {
			if ps[i].group == g {
				o2 = append(o2, i)
			}
		}
		order = o2
	}
	if g := os.Getenv("VERIF_C09_ORDER"); g != "" {
		// triage aid: exactly these probes in this order
		order = order[:0]
		for _, f := range strings.Split(g, ",") {
			k, _ := strconv.Atoi(f)
			order = append(order, k)
		}
	}
	first := make([]string, len(ps))
	for n, i := range order {
		c.Begin(i) // (a resumed or replayed batch still runs everything: the history has to be whole)
		p := ps[i]
		if hk == 14 && n%7 == 3 {
			c09Filler(c, 5, true, true, fmt.Sprintf("i%d", n))
			later := ps[order[r.Range(n, len(order)-1)]].t
			o, _ := randOpts(pv[later])
			sonic.Pretouch(later, o...)
		}
		res := p.run()
		first[i] = res
		if c.Verbose && i == c.Only {
			fmt.Printf("PROBE %d %s\n", i, p.desc())
			if p.enc != nil {
				fmt.Printf("VALUE %s\n", trunc(gen.Dump(p.enc.v), 3000))
			} else {
				fmt.Printf("DOC %q prefill=%v\n", p.dec.doc, p.dec.prefill)
			}
			fmt.Printf("OUT %s\nHISTORY %s\nPOSITION %d of %d\n", trunc(res, 4000), strings.Join(hist, "; "), n, len(order))
		}
		if os.Getenv("VERIF_C09_TRACE") != "" {
			fmt.Printf("TRACE %d %s => %s\n", i, p.desc(), trunc(res, 100))
		}
		if !(c.Only >= 0 && *fOut == "") {
			if p.dec != nil && c10LastZero.MatchString(p.dec.doc) {
				// known finding B42: the byte behind an input ending in the token 0 / -0 is read and can
				// change the result; what lies there is not a matter of history in the sense of C09
				c.Digest(i, "B42-not-compared")
				c.Count("probes_not_compared_B42", 1)
			} else {
				c.Digest(i, h64(res)+" "+strconv.Quote(trunc(res, 70)))
			}
		}
		if strings.HasPrefix(res, "PANIC") {
			c.Violate(i, "probe", "panic: "+trunc(res, 200), map[string]interface{}{"probe": p.desc(), "history": strings.Join(hist, "; ")})
		}
		c.Distinct(gen.HashString(p.desc()+"|"+res), true)
		c.Count("probes_"+p.group, 1)
		if c.Batch == 0 {
			// evidence only: how far the baseline itself agrees with encoding/json
			s := p.std()
			if s == res || (p.enc == nil && strings.HasPrefix(res, "ERR") && s == "ERR") {
				c.Count("baseline_probe_equals_encoding_json", 1)
			} else {
				c.Count("baseline_probe_differs_from_encoding_json(judged by C01/C03, not here)", 1)
			}
			c.Sample(p.group, 1, map[string]string{"probe": p.desc(), "result": trunc(res, 120)})
		}
	}
	// second execution, other order, after a collection: same process, same call, same answer
	runtime.GC()
	shuffle()
	for _, i := range order {
		if ps[i].dec != nil && c10LastZero.MatchString(ps[i].dec.doc) {
			continue // B42, see above
		}
		if res := ps[i].run(); res != first[i] {
			x, y := diffAt(res, first[i])
			c.Violate(i, "probe", "the same call in the same process gave another result the second time", map[string]interface{}{"probe": ps[i].desc(), "second": x, "first": y, "history": strings.Join(hist, "; ")})
		}
		c.Count("second_executions", 1)
	}
	c.Distinct(gen.HashString(strings.Join(hist, ";")+fmt.Sprint(order[:8])), true)
}
