package main

import (
	"bytes"
	"encoding/json"
	"fmt"
	"math"
	"reflect"
	"strconv"
	"strings"

	"github.com/bytedance/sonic"
	"github.com/bytedance/sonic/ast"

	"verifharness/gen"
)

func init() {
	workloads["C19"] = runC19
	workloads["C19/f32all"] = runC19F32All
	workloads["C19/f64fmt"] = runC19F64Fmt
	witnesses["B10"] = func() (bool, string) {
		var f float32
		err := sonic.UnmarshalString("1.00000005960464477550", &f)
		return err == nil && f == 1, fmt.Sprintf("float32 <- 1.00000005960464477550 = %v (std: 1.0000001)", f)
	}
	witnesses["B20"] = func() (bool, string) {
		var v struct{ A int }
		err := sonic.UnmarshalString(`{"unknown":1E400,"A":1}`, &v)
		var n json.Number
		err2 := sonic.UnmarshalString(`1E400`, &n)
		return isOptdec && err != nil && err2 != nil, fmt.Sprintf("optdec=%v skipped 1E400: %v; json.Number 1E400: %v", isOptdec, errStr(err), errStr(err2))
	}
	witnesses["B24"] = func() (bool, string) {
		var f float64 = 1
		err := sonic.UnmarshalString("-0", &f)
		return err == nil && f == 0 && !math.Signbit(f), fmt.Sprintf("float64 <- -0 has signbit=%v (std: true)", math.Signbit(f))
	}
}

var (
	cfgUseNumber = sonic.Config{UseNumber: true}.Froze()
	cfgUseInt64  = sonic.Config{UseInt64: true}.Froze()
)

// stdFloat is encoding/json's float formatting (floatEncoder), reimplemented
// so that billions of values can be checked; it is cross-checked against
// json.Marshal on a sample of every run.
func stdFloat(b []byte, f float64, bits int) []byte {
	abs := math.Abs(f)
	fmtc := byte('f')
	if abs != 0 {
		if bits == 64 && (abs < 1e-6 || abs >= 1e21) || bits == 32 && (float32(abs) < 1e-6 || float32(abs) >= 1e21) {
			fmtc = 'e'
		}
	}
	b = strconv.AppendFloat(b, f, fmtc, -1, bits)
	if fmtc == 'e' {
		n := len(b)
		if n >= 4 && b[n-4] == 'e' && b[n-3] == '-' && b[n-2] == '0' {
			b[n-2] = b[n-1]
			b = b[:n-1]
		}
	}
	return b
}

type numStr struct {
	I  int64   `json:"i,string"`
	U  uint64  `json:"u,string"`
	F  float64 `json:"f,string"`
	F3 float32 `json:"g,string"`
	I8 int8    `json:"b,string"`
}

var intTypes = []reflect.Type{
	reflect.TypeOf(int8(0)), reflect.TypeOf(int16(0)), reflect.TypeOf(int32(0)), reflect.TypeOf(int64(0)), reflect.TypeOf(int(0)),
	reflect.TypeOf(uint8(0)), reflect.TypeOf(uint16(0)), reflect.TypeOf(uint32(0)), reflect.TypeOf(uint64(0)), reflect.TypeOf(uint(0)), reflect.TypeOf(uintptr(0)),
}

// isInt64Lit is the documented UseInt64 model: -?digits that fits int64.
func isInt64Lit(s string) (int64, bool) {
	t := s
	if strings.HasPrefix(t, "-") {
		t = t[1:]
	}
	if t == "" {
		return 0, false
	}
	for i := 0; i < len(t); i++ {
		if t[i] < '0' || t[i] > '9' {
			return 0, false
		}
	}
	v, err := strconv.ParseInt(s, 10, 64)
	return v, err == nil
}

func c19Decode(c *Ctx, i int, lit string, r *gen.Rng) {
	// context: bare, padded, in array, in object
	f64, perr := strconv.ParseFloat(lit, 64)
	stdOK64 := perr == nil

	checkF64 := func(api string, got float64, err error) {
		if (err == nil) != stdOK64 {
			c.Violate(i, api, "error-or-not differs from strconv.ParseFloat/encoding/json", map[string]interface{}{"lit": trunc(lit, 200), "sonic_err": errStr(err), "std_err": errStr(perr)})
			return
		}
		if err == nil && math.Float64bits(got) != math.Float64bits(f64) {
			if lit == "-0" && got == 0 && !strings.HasPrefix(api, "ast.Node") {
				// (the ast accessors convert with strconv and keep the sign: no waiver there)
				c.Known("B24", i, api, "literal -0 decodes to +0", lit)
				return
			}
			c.Violate(i, api, "float64 bits differ from strconv.ParseFloat", map[string]interface{}{"lit": trunc(lit, 1300), "got": strconv.FormatFloat(got, 'g', -1, 64), "want": strconv.FormatFloat(f64, 'g', -1, 64)})
		}
	}
	{
		var f float64 = 7
		err := sonic.UnmarshalString(lit, &f)
		checkF64("Unmarshal(float64)", f, err)
		var fs []float64
		err = sonic.UnmarshalString(" [ "+lit+" ]", &fs)
		if err == nil && len(fs) == 1 {
			checkF64("Unmarshal([]float64)", fs[0], nil)
		} else {
			checkF64("Unmarshal([]float64)", 0, fmt.Errorf("err=%v len=%d", err, len(fs)))
		}
		var iface interface{}
		err = sonic.UnmarshalString(lit, &iface)
		if g, ok := iface.(float64); ok || err != nil {
			checkF64("Unmarshal(interface{})", g, err)
		} else {
			c.Violate(i, "Unmarshal(interface{})", "number did not become float64", map[string]interface{}{"lit": trunc(lit, 200), "got": fmt.Sprintf("%T", iface)})
		}
		var m map[string]interface{}
		err = sonic.UnmarshalString(`{"k":`+lit+`}`, &m)
		if g, ok := m["k"].(float64); ok || err != nil {
			checkF64("Unmarshal(map[string]interface{})", g, err)
		} else {
			c.Violate(i, "Unmarshal(map[string]interface{})", "number did not become float64", trunc(lit, 200))
		}
	}
	// float32
	{
		f32w, e32 := strconv.ParseFloat(lit, 32)
		var f float32 = 7
		err := sonic.UnmarshalString(lit, &f)
		if (err == nil) != (e32 == nil) {
			// Double rounding (parse as float64, then narrow) can also turn the float32
			// overflow decision around; that is the same listed defect B10 exactly when
			// sonic's verdict is the one narrowing the correctly rounded float64 gives.
			narrowOverflows := stdOK64 && math.IsInf(float64(float32(f64)), 0)
			switch {
			case stdOK64 && err != nil && narrowOverflows:
				c.Known("B10", i, "Unmarshal(float32)", "float32 parsed via float64 (double rounding at the overflow boundary)", trunc(lit, 200))
			case stdOK64 && err == nil && !narrowOverflows && math.Float32bits(f) == math.Float32bits(float32(f64)):
				c.Known("B10", i, "Unmarshal(float32)", "float32 parsed via float64 (double rounding at the overflow boundary)", trunc(lit, 200))
			default:
				c.Violate(i, "Unmarshal(float32)", "error-or-not differs from encoding/json", map[string]interface{}{"lit": trunc(lit, 200), "sonic_err": errStr(err), "std_err": errStr(e32), "got": f})
			}
		} else if err == nil && math.Float32bits(f) != math.Float32bits(float32(f32w)) {
			switch {
			case math.Float32bits(f) == math.Float32bits(float32(f64)):
				c.Known("B10", i, "Unmarshal(float32)", "float32 parsed via float64 (double rounding)", map[string]interface{}{"lit": trunc(lit, 200), "got": f, "want": float32(f32w)})
			case lit == "-0" && f == 0:
				c.Known("B24", i, "Unmarshal(float32)", "literal -0 decodes to +0", lit)
			default:
				c.Violate(i, "Unmarshal(float32)", "float32 bits differ from strconv.ParseFloat(s,32)", map[string]interface{}{"lit": trunc(lit, 400), "got": f, "want": float32(f32w)})
			}
		}
	}
	// integer destinations of every width, bare and as struct field / element
	for _, t := range intTypes {
		sv := reflect.New(t)
		jv := reflect.New(t)
		serr := sonic.UnmarshalString(lit, sv.Interface())
		jerr := json.Unmarshal([]byte(lit), jv.Interface())
		if (serr == nil) != (jerr == nil) {
			c.Violate(i, "Unmarshal("+t.String()+")", "error-or-not differs from encoding/json", map[string]interface{}{"lit": trunc(lit, 200), "sonic_err": errStr(serr), "std_err": errStr(jerr), "sonic_val": fmt.Sprint(sv.Elem().Interface())})
		} else if serr == nil && !reflect.DeepEqual(sv.Elem().Interface(), jv.Elem().Interface()) {
			c.Violate(i, "Unmarshal("+t.String()+")", "value differs from encoding/json", map[string]interface{}{"lit": trunc(lit, 200), "got": fmt.Sprint(sv.Elem().Interface()), "want": fmt.Sprint(jv.Elem().Interface())})
		}
	}
	{
		// integer map keys
		t := intTypes[r.Intn(len(intTypes))]
		mt := reflect.MapOf(t, reflect.TypeOf(0))
		sv, jv := reflect.New(mt), reflect.New(mt)
		doc := `{"` + lit + `":1}`
		serr := sonic.UnmarshalString(doc, sv.Interface())
		jerr := json.Unmarshal([]byte(doc), jv.Interface())
		if (serr == nil) != (jerr == nil) || (serr == nil && !reflect.DeepEqual(sv.Elem().Interface(), jv.Elem().Interface())) {
			c.Violate(i, "Unmarshal("+mt.String()+")", "integer map key conversion differs from encoding/json", map[string]interface{}{"doc": trunc(doc, 200), "sonic_err": errStr(serr), "std_err": errStr(jerr), "got": fmt.Sprint(sv.Elem().Interface()), "want": fmt.Sprint(jv.Elem().Interface())})
		}
	}
	// json.Number text preserved; UseNumber; UseInt64
	{
		var n json.Number
		if err := sonic.UnmarshalString(" "+lit+" ", &n); err != nil && !stdOK64 && isOptdec {
			c.Known("B20", i, "Unmarshal(json.Number)", "optdec rejects a literal whose float64 value overflows even where no float conversion is asked for", trunc(lit, 120))
		} else if err != nil || string(n) != lit {
			c.Violate(i, "Unmarshal(json.Number)", "text not preserved", map[string]interface{}{"lit": trunc(lit, 200), "got": trunc(string(n), 200), "err": errStr(err)})
		}
		var v interface{}
		if err := cfgUseNumber.UnmarshalFromString("["+lit+"]", &v); err != nil {
			c.Violate(i, "UseNumber", "error: "+err.Error(), trunc(lit, 200))
		} else if a, ok := v.([]interface{}); !ok || len(a) != 1 || a[0] != json.Number(lit) {
			c.Violate(i, "UseNumber", "number in interface{} is not json.Number with the literal text", map[string]interface{}{"lit": trunc(lit, 200), "got": fmt.Sprintf("%#v", v)})
		}
		var w interface{}
		err := cfgUseInt64.UnmarshalFromString(lit, &w)
		if iv, ok := isInt64Lit(lit); ok {
			if err != nil || w != interface{}(iv) {
				c.Violate(i, "UseInt64", "integer literal did not become int64", map[string]interface{}{"lit": lit, "got": fmt.Sprintf("%#v", w), "err": errStr(err)})
			}
		} else if g, ok := w.(float64); ok || err != nil {
			checkF64("UseInt64(float)", g, err)
		} else {
			c.Violate(i, "UseInt64", "non-int64 literal did not become float64", map[string]interface{}{"lit": trunc(lit, 200), "got": fmt.Sprintf("%#v", w)})
		}
	}
	// ",string" fields
	{
		names := []string{"i", "u", "f", "g", "b"}
		nm := names[r.Intn(len(names))]
		doc := `{"` + nm + `":"` + lit + `"}`
		var sv, jv numStr
		serr := sonic.UnmarshalString(doc, &sv)
		jerr := json.Unmarshal([]byte(doc), &jv)
		if (serr == nil) != (jerr == nil) && nm == "g" && stdOK64 && (serr != nil) == math.IsInf(float64(float32(f64)), 0) {
			c.Known("B10", i, "Unmarshal(,string float32)", "float32 parsed via float64 (double rounding at the overflow boundary)", trunc(doc, 200))
		} else if (serr == nil) != (jerr == nil) {
			c.Violate(i, "Unmarshal(,string "+nm+")", "error-or-not differs from encoding/json", map[string]interface{}{"doc": trunc(doc, 200), "sonic_err": errStr(serr), "std_err": errStr(jerr)})
		} else if serr == nil && !bitsEqual(sv, jv) {
			if nm == "g" && math.Float32bits(sv.F3) == math.Float32bits(float32(f64)) {
				c.Known("B10", i, "Unmarshal(,string float32)", "float32 parsed via float64 (double rounding)", trunc(doc, 200))
			} else if lit == "-0" {
				c.Known("B24", i, "Unmarshal(,string)", "literal -0 decodes to +0", doc)
			} else {
				c.Violate(i, "Unmarshal(,string "+nm+")", "value differs from encoding/json", map[string]interface{}{"doc": trunc(doc, 200), "got": fmt.Sprintf("%+v", sv), "want": fmt.Sprintf("%+v", jv)})
			}
		}
	}
	// ast accessors
	{
		root, err := sonic.GetFromString("[" + lit + " ]")
		if err != nil {
			c.Violate(i, "Get", "valid document rejected: "+err.Error(), trunc(lit, 200))
			return
		}
		nd := root.Index(0)
		if num, err := nd.Number(); err != nil || string(num) != lit {
			c.Violate(i, "ast.Node.Number", "text not preserved", map[string]interface{}{"lit": trunc(lit, 200), "got": trunc(string(num), 200), "err": errStr(err)})
		}
		if raw, err := nd.Raw(); err != nil || raw != lit {
			c.Violate(i, "ast.Node.Raw", "raw text differs", map[string]interface{}{"lit": trunc(lit, 200), "got": trunc(raw, 200)})
		}
		g, err := nd.Float64()
		checkF64("ast.Node.Float64", g, err)
		g, err = nd.StrictFloat64()
		checkF64("ast.Node.StrictFloat64", g, err)
		if iv, ok := isInt64Lit(lit); ok {
			if g, err := nd.Int64(); err != nil || g != iv {
				c.Violate(i, "ast.Node.Int64", "integer literal converted wrongly", map[string]interface{}{"lit": lit, "got": g, "err": errStr(err)})
			}
			if g, err := nd.StrictInt64(); err != nil || g != iv {
				c.Violate(i, "ast.Node.StrictInt64", "integer literal converted wrongly", map[string]interface{}{"lit": lit, "got": g, "err": errStr(err)})
			}
		}
		if _, ok := isInt64Lit(lit); !ok && plainInt.MatchString(lit) {
			// an integer literal that does not fit int64: the strict accessor must reject it, not wrap it
			if g, err := nd.StrictInt64(); err == nil {
				c.Violate(i, "ast.Node.StrictInt64", "out-of-range integer literal accepted", map[string]interface{}{"lit": trunc(lit, 200), "got": g})
			}
			c.Count("ast_strict_int64_out_of_range_literals", 1)
		}
		// Interface() on a parsed tree
		n2, _ := sonic.GetFromString(`{"a":` + lit + `}`)
		if x, err := n2.Interface(); err == nil {
			if m, ok := x.(map[string]interface{}); ok {
				if g, ok := m["a"].(float64); ok {
					checkF64("ast.Node.Interface", g, nil)
				} else {
					c.Violate(i, "ast.Node.Interface", "number did not become float64", trunc(lit, 200))
				}
			}
		} else {
			checkF64("ast.Node.Interface", 0, err)
		}
		if x, err := n2.InterfaceUseNumber(); err != nil {
			c.Violate(i, "ast.Node.InterfaceUseNumber", "error: "+err.Error(), trunc(lit, 200))
		} else if m, ok := x.(map[string]interface{}); !ok || m["a"] != json.Number(lit) {
			c.Violate(i, "ast.Node.InterfaceUseNumber", "json.Number text differs", map[string]interface{}{"lit": trunc(lit, 200), "got": fmt.Sprintf("%#v", x)})
		}
		// visitor callbacks
		vis := &numVisitor{}
		if err := ast.Preorder("["+lit+"]", vis, nil); err != nil {
			if !stdOK64 {
				// out-of-range float: an error is the exact-conversion answer (as Unmarshal into interface{})
				return
			}
			c.Violate(i, "ast.Preorder", "valid document rejected: "+err.Error(), trunc(lit, 200))
		} else if len(vis.seen) != 1 {
			c.Violate(i, "ast.Preorder", "expected one number event", fmt.Sprint(vis.seen))
		} else {
			switch x := vis.seen[0].(type) {
			case int64:
				if iv, ok := isInt64Lit(lit); !ok || iv != x {
					c.Violate(i, "ast.Preorder/OnInt64", "wrong int64 payload", map[string]interface{}{"lit": trunc(lit, 200), "got": x})
				}
			case float64:
				checkF64("ast.Preorder/OnFloat64", x, nil)
				if string(vis.num[0]) != lit {
					c.Violate(i, "ast.Preorder/OnFloat64", "json.Number text differs", map[string]interface{}{"lit": trunc(lit, 200), "got": trunc(string(vis.num[0]), 200)})
				}
			}
		}
	}
}

type numVisitor struct {
	seen []interface{}
	num  []json.Number
}

func (v *numVisitor) OnNull() error           { return nil }
func (v *numVisitor) OnBool(bool) error       { return nil }
func (v *numVisitor) OnString(string) error   { return nil }
func (v *numVisitor) OnObjectBegin(int) error { return nil }
func (v *numVisitor) OnObjectKey(string) error {
	return nil
}
func (v *numVisitor) OnObjectEnd() error     { return nil }
func (v *numVisitor) OnArrayBegin(int) error { return nil }
func (v *numVisitor) OnArrayEnd() error      { return nil }
func (v *numVisitor) OnInt64(x int64, n json.Number) error {
	v.seen = append(v.seen, x)
	v.num = append(v.num, n)
	return nil
}
func (v *numVisitor) OnFloat64(x float64, n json.Number) error {
	v.seen = append(v.seen, x)
	v.num = append(v.num, n)
	return nil
}

func bitsEqual(a, b numStr) bool {
	return a.I == b.I && a.U == b.U && a.I8 == b.I8 && math.Float64bits(a.F) == math.Float64bits(b.F) && math.Float32bits(a.F3) == math.Float32bits(b.F3)
}

type fmtHolder struct {
	F  float64            `json:"f"`
	FS float64            `json:"fs,string"`
	G  float32            `json:"g"`
	GS float32            `json:"gs,string"`
	I  interface{}        `json:"i"`
	M  map[float64]string `json:"-"`
	P  *float64           `json:"p"`
	A  []float32          `json:"a"`
}

func c19Format(c *Ctx, i int, f float64, g float32, iv int64, uv uint64) {
	// float64 / float32 scalars
	want := string(stdFloat(nil, f, 64))
	if out, err := sonic.Marshal(f); err != nil || string(out) != want {
		c.Violate(i, "Marshal(float64)", "text differs from encoding/json", map[string]interface{}{"bits": fmt.Sprintf("%#x", math.Float64bits(f)), "got": string(out), "want": want, "err": errStr(err)})
	} else if back, e := strconv.ParseFloat(string(out), 64); e != nil || math.Float64bits(back) != math.Float64bits(f) {
		c.Violate(i, "Marshal(float64)", "text does not parse back to the same bits", map[string]interface{}{"got": string(out), "bits": fmt.Sprintf("%#x", math.Float64bits(f))})
	}
	want32 := string(stdFloat(nil, float64(g), 32))
	if out, err := sonic.Marshal(g); err != nil || string(out) != want32 {
		c.Violate(i, "Marshal(float32)", "text differs from encoding/json", map[string]interface{}{"bits": fmt.Sprintf("%#x", math.Float32bits(g)), "got": string(out), "want": want32, "err": errStr(err)})
	}
	h := fmtHolder{F: f, FS: f, G: g, GS: g, I: f, P: &f, A: []float32{g, -g}}
	so, serr := sonic.Marshal(&h)
	jo, jerr := json.Marshal(&h)
	if (serr == nil) != (jerr == nil) || !bytes.Equal(so, jo) {
		c.Violate(i, "Marshal(struct of floats)", "differs from encoding/json", map[string]interface{}{"got": string(so), "want": string(jo), "err": errStr(serr)})
	}
	// integers of every width
	for _, t := range intTypes {
		v := reflect.New(t).Elem()
		if v.Kind() >= reflect.Uint && v.Kind() <= reflect.Uintptr {
			v.SetUint(uv)
		} else {
			v.SetInt(iv)
		}
		so, serr := sonic.Marshal(v.Interface())
		jo, _ := json.Marshal(v.Interface())
		if serr != nil || !bytes.Equal(so, jo) {
			c.Violate(i, "Marshal("+t.String()+")", "differs from encoding/json", map[string]interface{}{"got": string(so), "want": string(jo)})
		}
	}
	im := map[int64]numStr{iv: {I: iv, U: uv, F: f, F3: g, I8: int8(iv)}}
	so, serr = sonic.ConfigStd.Marshal(im)
	jo, jerr = json.Marshal(im)
	if (serr == nil) != (jerr == nil) || !bytes.Equal(so, jo) {
		c.Violate(i, "Marshal(map[int64]struct,string)", "differs from encoding/json", map[string]interface{}{"got": string(so), "want": string(jo), "err": errStr(serr)})
	}
	um := map[uint64]interface{}{uv: iv, uv + 1: uv, uv + 2: g}
	so, serr = sonic.ConfigStd.Marshal(um)
	jo, jerr = json.Marshal(um)
	if (serr == nil) != (jerr == nil) || !bytes.Equal(so, jo) {
		c.Violate(i, "Marshal(map[uint64]interface{})", "differs from encoding/json", map[string]interface{}{"got": string(so), "want": string(jo), "err": errStr(serr)})
	}
	// round trip through sonic's own decoder
	var back float64
	if out, err := sonic.Marshal(f); err == nil {
		if e := sonic.Unmarshal(out, &back); e != nil || (math.Float64bits(back) != math.Float64bits(f) && !(string(out) == "-0")) {
			c.Violate(i, "Marshal+Unmarshal(float64)", "round trip changes bits", map[string]interface{}{"text": string(out), "bits": fmt.Sprintf("%#x", math.Float64bits(f)), "back": fmt.Sprintf("%#x", math.Float64bits(back))})
		}
	}
}

func runC19(c *Ctx) {
	// self-check of the std float formatter copy
	for k := 0; k < 2000; k++ {
		r := c.Rng(1<<30 + k)
		f := r.InterestingFloat64()
		j, _ := json.Marshal(f)
		if string(j) != string(stdFloat(nil, f, 64)) {
			c.Note(-1, "inconclusive: harness stdFloat(64) disagrees with encoding/json", fmt.Sprint(f))
		}
		g := r.InterestingFloat32()
		j, _ = json.Marshal(g)
		if string(j) != string(stdFloat(nil, float64(g), 32)) {
			c.Note(-1, "inconclusive: harness stdFloat(32) disagrees with encoding/json", fmt.Sprint(g))
		}
	}
	N := c.N(12000, 1500000)
	idx := 0
	for k := 0; k < N; k++ {
		i := idx
		idx++
		if c.Stop(i) {
			return
		}
		if !c.Begin(i) {
			continue
		}
		r := c.Rng(i)
		lit := r.NumberLiteral()
		if !json.Valid([]byte(lit)) {
			c.Note(i, "inconclusive: generator produced an invalid number literal", lit)
			continue
		}
		c.Guard(i, "decode", func() { c19Decode(c, i, lit, r) })
		c.Distinct(gen.HashString(lit), true)
		c.Count("decode_literals", 1)
		c.Sample("literal", 4, trunc(lit, 120))
	}
	M := c.N(40000, 4000000)
	for k := 0; k < M; k++ {
		i := idx
		idx++
		if c.Stop(i) {
			return
		}
		if !c.Begin(i) {
			continue
		}
		r := c.Rng(i)
		f := r.InterestingFloat64()
		g := r.InterestingFloat32()
		iv := int64(r.U64()) >> uint(r.Intn(64))
		uv := r.U64() >> uint(r.Intn(64))
		c.Guard(i, "format", func() { c19Format(c, i, f, g, iv, uv) })
		c.Distinct(math.Float64bits(f)^uint64(math.Float32bits(g))<<7^uint64(iv), true)
		c.Count("format_values", 1)
		c.Sample("format", 2, fmt.Sprint(f, " ", g, " ", iv, " ", uv))
	}
}

// runC19F32All formats and re-parses float32 bit patterns in blocks: every
// pattern in the thorough tier (exhaustive), a strided sample in quick.
func runC19F32All(c *Ctx) {
	const block = 1 << 12
	total := uint64(1) << 32
	stride := uint64(1)
	if !c.Thorough() {
		stride = 1021 // prime: visits all exponents and a spread of mantissas
	}
	per := total / uint64(c.NBatch)
	lo := per * uint64(c.Batch)
	hi := lo + per
	buf := make([]float32, 0, block)
	var want []byte
	i := 0
	flush := func() {
		if len(buf) == 0 {
			return
		}
		idx := i
		i++
		if !c.Begin(idx) {
			buf = buf[:0]
			return
		}
		out, err := sonic.Marshal(buf)
		want = append(want[:0], '[')
		for k, f := range buf {
			if k > 0 {
				want = append(want, ',')
			}
			want = stdFloat(want, float64(f), 32)
		}
		want = append(want, ']')
		if err != nil || !bytes.Equal(out, want) {
			// locate the element
			for _, f := range buf {
				o, _ := sonic.Marshal(f)
				w := stdFloat(nil, float64(f), 32)
				if !bytes.Equal(o, w) {
					c.Violate(idx, "Marshal(float32)", "text differs from encoding/json", map[string]interface{}{"bits": fmt.Sprintf("%#x", math.Float32bits(f)), "got": string(o), "want": string(w)})
					break
				}
			}
			if err != nil {
				c.Violate(idx, "Marshal([]float32)", "error: "+err.Error(), nil)
			}
		}
		// decode the std text back with sonic: every float32 must round trip
		var back []float32
		if e := sonic.Unmarshal(want, &back); e != nil || len(back) != len(buf) {
			c.Violate(idx, "Unmarshal([]float32)", "shortest float32 texts rejected: "+errStr(e), nil)
		} else {
			for k := range buf {
				if math.Float32bits(back[k]) != math.Float32bits(buf[k]) {
					txt := string(stdFloat(nil, float64(buf[k]), 32))
					if txt == "-0" {
						c.Known("B24", idx, "Unmarshal([]float32)", "literal -0 decodes to +0", txt)
						continue
					}
					c.Violate(idx, "Unmarshal([]float32)", "shortest float32 text does not decode to the same bits", map[string]interface{}{"text": txt, "got": fmt.Sprintf("%#x", math.Float32bits(back[k])), "want": fmt.Sprintf("%#x", math.Float32bits(buf[k]))})
					break
				}
			}
		}
		c.Count("float32_patterns", int64(len(buf)))
		c.Distinct(uint64(math.Float32bits(buf[0])), true)
		buf = buf[:0]
	}
	for b := lo; b < hi; b += stride {
		f := math.Float32frombits(uint32(b))
		if f != f || math.IsInf(float64(f), 0) {
			continue
		}
		buf = append(buf, f)
		if len(buf) == block {
			flush()
		}
	}
	flush()
	c.Sample("float32 block", 1, fmt.Sprintf("bit patterns [%#x,%#x) stride %d", lo, hi, stride))
}

// runC19F64Fmt: bulk float64 formatting against the std formatter.
func runC19F64Fmt(c *Ctx) {
	const block = 1 << 12
	blocks := c.N(40, 3000)
	buf := make([]float64, block)
	var want []byte
	for i := 0; i < blocks; i++ {
		if !c.Begin(i) {
			continue
		}
		r := c.Rng(i)
		for k := range buf {
			switch r.Intn(3) {
			case 0:
				buf[k] = r.InterestingFloat64()
			default:
				for {
					f := math.Float64frombits(r.U64())
					if f == f && !math.IsInf(f, 0) {
						buf[k] = f
						break
					}
				}
			}
		}
		out, err := sonic.Marshal(buf)
		want = append(want[:0], '[')
		for k, f := range buf {
			if k > 0 {
				want = append(want, ',')
			}
			want = stdFloat(want, f, 64)
		}
		want = append(want, ']')
		if err != nil || !bytes.Equal(out, want) {
			for _, f := range buf {
				o, _ := sonic.Marshal(f)
				w := stdFloat(nil, f, 64)
				if !bytes.Equal(o, w) {
					c.Violate(i, "Marshal(float64)", "text differs from encoding/json", map[string]interface{}{"bits": fmt.Sprintf("%#x", math.Float64bits(f)), "got": string(o), "want": string(w)})
					break
				}
			}
		}
		var back []float64
		if e := sonic.Unmarshal(want, &back); e != nil || len(back) != len(buf) {
			c.Violate(i, "Unmarshal([]float64)", "shortest float64 texts rejected: "+errStr(e), nil)
		} else {
			for k := range buf {
				if math.Float64bits(back[k]) != math.Float64bits(buf[k]) {
					txt := string(stdFloat(nil, buf[k], 64))
					if txt == "-0" {
						c.Known("B24", i, "Unmarshal([]float64)", "literal -0 decodes to +0", txt)
						continue
					}
					c.Violate(i, "Unmarshal([]float64)", "shortest text does not decode to the same bits", map[string]interface{}{"text": txt})
					break
				}
			}
		}
		c.Count("float64_values", block)
		c.Distinct(math.Float64bits(buf[0]), true)
	}
	c.Sample("float64 block", 1, fmt.Sprintf("%d blocks of %d values", blocks, block))
}
