package main

import (
	"encoding/json"
	"fmt"
	"reflect"
	"sort"
	"strconv"
	"strings"

	"github.com/bytedance/sonic"
	"github.com/bytedance/sonic/ast"

	"verifharness/gen"
	"verifharness/ref"
)

func init() {
	workloads["C15"] = runC15
	witnesses["B9"] = func() (bool, string) {
		n := ast.NewRaw(`[1,2,3]`)
		l0, _ := n.Len()
		n.LoadAll()
		l1, _ := n.Len()
		return l0 != l1, fmt.Sprintf("NewRaw(`[1,2,3]`).Len() = %d before LoadAll, %d after", l0, l1)
	}
	witnesses["B40"] = func() (bool, string) {
		n := ast.NewRaw(`["a","b","c"]`)
		n.LoadAll()
		n.UnsetByIndex(0)
		l, _ := n.Len()
		e0 := n.Index(0).Exists()
		s2, _ := n.Index(2).String()
		return l == 2 && !e0 && s2 == "c", fmt.Sprintf("[a,b,c].UnsetByIndex(0): Len()=%d Index(0).Exists()=%v Index(2)=%q", l, e0, s2)
	}
}

// ---------------------------------------------------------------------------
// the ordered-tree model (DESIGN appendix A)

type mval struct {
	kind  ref.Kind
	none  bool // does not exist
	b     bool
	text  string // number text / decoded string
	elems []*mval
	keys  []string
	holey bool // an element was removed other than by Pop: index addressing is not generated any more
	// inserted through SetAny/AddAny/SetAnyByIndex: a V_ANY node is documented to serve only
	// Interface()/Array()/Map() and serialisation; it keeps the Go value (int64 stays int64)
	opaque bool
}

func (m *mval) hasOpaque() bool {
	if m.opaque {
		return true
	}
	for _, e := range m.elems {
		if e.hasOpaque() {
			return true
		}
	}
	return false
}

func fromRef(v *ref.Value) *mval {
	m := &mval{kind: v.Kind, b: v.B, text: v.Text, keys: append([]string(nil), v.Keys...)}
	for _, e := range v.Elems {
		m.elems = append(m.elems, fromRef(e))
	}
	return m
}

func (m *mval) clone() *mval {
	c := *m
	c.keys = append([]string(nil), m.keys...)
	c.elems = nil
	for _, e := range m.elems {
		c.elems = append(c.elems, e.clone())
	}
	return &c
}

func (m *mval) json(sb *strings.Builder) {
	switch m.kind {
	case ref.Null:
		sb.WriteString("null")
	case ref.Bool:
		sb.WriteString(strconv.FormatBool(m.b))
	case ref.Num:
		sb.WriteString(m.text)
	case ref.Str:
		b, _ := json.Marshal(m.text)
		sb.Write(b)
	case ref.Arr:
		sb.WriteByte('[')
		for i, e := range m.elems {
			if i > 0 {
				sb.WriteByte(',')
			}
			e.json(sb)
		}
		sb.WriteByte(']')
	case ref.Obj:
		sb.WriteByte('{')
		for i, e := range m.elems {
			if i > 0 {
				sb.WriteByte(',')
			}
			b, _ := json.Marshal(m.keys[i])
			sb.Write(b)
			sb.WriteByte(':')
			e.json(sb)
		}
		sb.WriteByte('}')
	}
}

func (m *mval) String() string {
	var sb strings.Builder
	m.json(&sb)
	return sb.String()
}

func (m *mval) get(k string) *mval {
	if m.kind != ref.Obj {
		return nil
	}
	for i, kk := range m.keys {
		if kk == k {
			return m.elems[i]
		}
	}
	return nil
}

func (m *mval) sortKeys(rec bool) {
	switch m.kind {
	case ref.Obj:
		idx := make([]int, len(m.keys))
		for i := range idx {
			idx[i] = i
		}
		sort.SliceStable(idx, func(a, b int) bool { return m.keys[idx[a]] < m.keys[idx[b]] })
		nk := make([]string, len(idx))
		ne := make([]*mval, len(idx))
		for i, j := range idx {
			nk[i], ne[i] = m.keys[j], m.elems[j]
		}
		m.keys, m.elems = nk, ne
		if rec {
			for _, e := range m.elems {
				e.sortKeys(rec)
			}
		}
	case ref.Arr:
		if rec {
			for _, e := range m.elems {
				e.sortKeys(rec)
			}
		}
	}
}

// ---------------------------------------------------------------------------
// operations

type c15Op struct {
	path  []interface{} // where (from the root)
	name  string
	key   string
	idx   int
	idx2  int
	val   *mval // new value for Set/Add
	from  []interface{} // if set: the new value is the (scalar) node found at this path of the same tree
	rec   bool
	label string
	// SetAny/AddAny/SetAnyByIndex: the Go value handed over (val is its model)
	any  interface{}
	key2 string // second step of GetByPath
}

func (o c15Op) String() string {
	return fmt.Sprintf("%v.%s(%s)", o.path, o.name, o.label)
}

func newValueModel(r *gen.Rng) *mval {
	switch r.Intn(8) {
	case 0:
		return &mval{kind: ref.Null}
	case 1:
		return &mval{kind: ref.Bool, b: r.Bool()}
	case 2:
		return &mval{kind: ref.Num, text: strconv.Itoa(r.Range(-99, 999))}
	case 3:
		return &mval{kind: ref.Str, text: []string{"", "new", "é\"q", "x y"}[r.Intn(4)]}
	case 4:
		return &mval{kind: ref.Arr}
	case 5:
		return &mval{kind: ref.Obj}
	case 6:
		return &mval{kind: ref.Arr, elems: []*mval{{kind: ref.Num, text: "1"}, {kind: ref.Obj, keys: []string{"in"}, elems: []*mval{{kind: ref.Null}}}}}
	}
	return &mval{kind: ref.Obj, keys: []string{"b", "a", "b"}, elems: []*mval{{kind: ref.Num, text: "1"}, {kind: ref.Str, text: "s"}, {kind: ref.Bool}}}
}

// toNode builds an ast.Node for a model value; raw=true builds it from text
// (a raw/lazy node), otherwise from constructors.
func toNode(m *mval, raw bool) ast.Node {
	if raw {
		return ast.NewRaw(m.String())
	}
	switch m.kind {
	case ref.Null:
		return ast.NewNull()
	case ref.Bool:
		return ast.NewBool(m.b)
	case ref.Num:
		return ast.NewNumber(m.text)
	case ref.Str:
		return ast.NewString(m.text)
	case ref.Arr:
		var ns []ast.Node
		for _, e := range m.elems {
			ns = append(ns, toNode(e, false))
		}
		return ast.NewArray(ns)
	default:
		var ps []ast.Pair
		for i, e := range m.elems {
			if (len(m.elems)+i)%2 == 0 {
				ps = append(ps, ast.NewPair(m.keys[i], toNode(e, false)))
			} else {
				// the exported fields of Pair: a literal is a legitimate way to build one
				ps = append(ps, ast.Pair{Key: m.keys[i], Value: toNode(e, false)})
			}
		}
		return ast.NewObject(ps)
	}
}

// modelAt resolves a path in the model.
func modelAt(root *mval, path []interface{}) *mval {
	cur := root
	for _, st := range path {
		if cur == nil {
			return nil
		}
		switch x := st.(type) {
		case string:
			cur = cur.get(x)
		case int:
			if cur.kind != ref.Arr || x < 0 || x >= len(cur.elems) {
				return nil
			}
			cur = cur.elems[x]
		}
	}
	return cur
}

func nodeAtPath(root *ast.Node, path []interface{}) *ast.Node {
	cur := root
	for _, st := range path {
		if cur == nil {
			return nil
		}
		switch x := st.(type) {
		case string:
			cur = cur.Get(x)
		case int:
			cur = cur.Index(x)
		}
	}
	return cur
}

// obs is what an operation lets the caller observe.
type obs struct {
	ok     bool   // boolean result (exists / replaced / removed)
	err    bool   // error returned
	val    string // canonical text of a returned value, if any
	unspec bool   // the model does not define the result: only replicas are compared
}

func (o obs) String() string { return fmt.Sprintf("ok=%v err=%v val=%s", o.ok, o.err, trunc(o.val, 120)) }

func tokensText(js string) string {
	t, ok := tokensOf([]byte(js))
	if !ok {
		return "!invalid:" + js
	}
	return strings.Join(t, " ")
}

// applyModel applies op to the model and returns the expected observation.
func applyModel(root *mval, op c15Op) obs {
	t := modelAt(root, op.path)
	if t == nil {
		return obs{unspec: true}
	}
	for k := range op.path {
		if a := modelAt(root, op.path[:k+1]); a != nil && a.opaque {
			// inside (or at) a V_ANY value: nothing but its serialisation is specified
			return obs{unspec: true}
		}
	}
	switch op.name {
	case "Get":
		e := t.get(op.key)
		if t.kind != ref.Obj {
			return obs{err: true}
		}
		if e == nil {
			return obs{ok: false}
		}
		return obs{ok: true, val: tokensText(e.String())}
	case "Index":
		if t.kind == ref.Arr {
			if op.idx >= 0 && op.idx < len(t.elems) {
				return obs{ok: true, val: tokensText(t.elems[op.idx].String())}
			}
			return obs{ok: false}
		}
		if t.kind == ref.Obj {
			if op.idx >= 0 && op.idx < len(t.elems) {
				return obs{ok: true, val: tokensText(t.elems[op.idx].String())}
			}
			return obs{ok: false}
		}
		return obs{err: true}
	case "Len":
		switch t.kind {
		case ref.Arr, ref.Obj:
			return obs{ok: true, val: strconv.Itoa(len(t.elems))}
		case ref.Str:
			return obs{ok: true, val: strconv.Itoa(len(t.text))}
		case ref.Null:
			return obs{ok: true, val: "0"}
		}
		return obs{err: true}
	case "Set":
		if t.kind == ref.Null {
			*t = mval{kind: ref.Obj, keys: []string{op.key}, elems: []*mval{op.val.clone()}}
			return obs{ok: false}
		}
		if t.kind != ref.Obj {
			return obs{err: true}
		}
		for i, k := range t.keys {
			if k == op.key {
				t.elems[i] = op.val.clone()
				return obs{ok: true}
			}
		}
		t.keys = append(t.keys, op.key)
		t.elems = append(t.elems, op.val.clone())
		return obs{ok: false}
	case "SetByIndex":
		if t.kind == ref.Null && op.idx == 0 {
			*t = mval{kind: ref.Arr, elems: []*mval{op.val.clone()}}
			return obs{ok: false}
		}
		if (t.kind == ref.Arr || t.kind == ref.Obj) && op.idx >= 0 && op.idx < len(t.elems) {
			t.elems[op.idx] = op.val.clone()
			return obs{ok: true}
		}
		return obs{ok: false, err: true}
	case "Add":
		if t.kind == ref.Null {
			*t = mval{kind: ref.Arr, elems: []*mval{op.val.clone()}}
			return obs{}
		}
		if t.kind != ref.Arr {
			return obs{err: true}
		}
		t.elems = append(t.elems, op.val.clone())
		return obs{}
	case "Unset":
		if t.kind != ref.Obj {
			return obs{err: true}
		}
		for i, k := range t.keys {
			if k == op.key {
				// Unset(key) always removes softly (even the last pair): a hole stays behind
				t.holey = true
				t.keys = append(t.keys[:i:i], t.keys[i+1:]...)
				t.elems = append(t.elems[:i:i], t.elems[i+1:]...)
				return obs{ok: true}
			}
		}
		return obs{ok: false}
	case "UnsetByIndex":
		if t.kind != ref.Arr && t.kind != ref.Obj {
			return obs{err: true}
		}
		if op.idx < 0 || op.idx >= len(t.elems) {
			return obs{ok: false, err: true}
		}
		if op.idx != len(t.elems)-1 {
			t.holey = true
		}
		if t.kind == ref.Obj {
			t.keys = append(t.keys[:op.idx:op.idx], t.keys[op.idx+1:]...)
		}
		t.elems = append(t.elems[:op.idx:op.idx], t.elems[op.idx+1:]...)
		return obs{ok: true}
	case "Pop":
		if t.kind != ref.Arr && t.kind != ref.Obj {
			return obs{err: true}
		}
		if n := len(t.elems); n > 0 {
			t.elems = t.elems[:n-1]
			if t.kind == ref.Obj {
				t.keys = t.keys[:n-1]
			}
		}
		return obs{}
	case "Move":
		if t.kind != ref.Arr {
			return obs{err: true}
		}
		n := len(t.elems)
		if op.idx < 0 || op.idx >= n || op.idx2 < 0 || op.idx2 >= n {
			return obs{unspec: true}
		}
		dst, src := op.idx, op.idx2
		e := t.elems[src]
		t.elems = append(t.elems[:src:src], t.elems[src+1:]...)
		t.elems = append(t.elems[:dst:dst], append([]*mval{e}, t.elems[dst:]...)...)
		return obs{}
	case "SortKeys":
		if t.kind != ref.Obj && t.kind != ref.Arr {
			return obs{}
		}
		t.sortKeys(op.rec)
		return obs{}
	case "Load", "LoadAll", "Touch":
		return obs{}
	case "SetAny":
		o2 := op
		o2.name = "Set"
		return applyModel(root, o2)
	case "AddAny":
		o2 := op
		o2.name = "Add"
		return applyModel(root, o2)
	case "SetAnyByIndex":
		o2 := op
		o2.name = "SetByIndex"
		return applyModel(root, o2)
	case "IndexPair":
		if t.kind != ref.Obj {
			return obs{unspec: true}
		}
		if op.idx >= 0 && op.idx < len(t.elems) {
			return obs{ok: true, val: strconv.Quote(t.keys[op.idx]) + ":" + tokensText(t.elems[op.idx].String())}
		}
		return obs{ok: false}
	case "IndexOrGet":
		if t.kind != ref.Obj {
			return obs{err: true}
		}
		if op.idx >= 0 && op.idx < len(t.elems) && t.keys[op.idx] == op.key {
			return obs{ok: true, val: tokensText(t.elems[op.idx].String())}
		}
		if e := t.get(op.key); e != nil {
			return obs{ok: true, val: tokensText(e.String())}
		}
		return obs{ok: false}
	case "GetByPath":
		// two steps: a key or an index, then a key
		var e *mval
		if t.kind == ref.Obj {
			e = t.get(op.key)
		} else if t.kind == ref.Arr && op.idx >= 0 && op.idx < len(t.elems) {
			e = t.elems[op.idx]
		}
		if e == nil || e.kind != ref.Obj {
			return obs{ok: false}
		}
		if e2 := e.get(op.key2); e2 != nil {
			return obs{ok: true, val: tokensText(e2.String())}
		}
		return obs{ok: false}
	case "Views":
		// the read-only conversions of the whole subtree, in the middle of a sequence
		if t.hasOpaque() {
			return obs{unspec: true}
		}
		switch t.kind {
		case ref.Obj, ref.Arr:
			var want interface{}
			if json.Unmarshal([]byte(t.String()), &want) != nil {
				return obs{unspec: true}
			}
			return obs{ok: true, val: strconv.Itoa(len(t.elems)) + "|" + gen.Dump(reflect.ValueOf(&want).Elem())}
		}
		return obs{unspec: true}
	case "Keys": // iteration order of an object / array length through iterators
		switch t.kind {
		case ref.Obj:
			return obs{ok: true, val: strings.Join(t.keys, "\x1f") + "|" + tokensText(t.String())}
		case ref.Arr:
			return obs{ok: true, val: tokensText(t.String())}
		}
		return obs{err: true}
	}
	return obs{unspec: true}
}

// newNode is the value an inserting operation uses: a fresh node, or a copy of
// a scalar node that already lives in the same tree (moving values around
// inside one document).
func newNode(root *ast.Node, op c15Op, raw bool) ast.Node {
	if op.from != nil {
		if src := nodeAtPath(root, op.from); src != nil && src.Exists() && src.Check() == nil {
			return *src
		}
	}
	return toNode(op.val, raw)
}

// applyNode applies op to a sonic node tree.
func applyNode(root *ast.Node, op c15Op, rawValues bool) obs {
	t := nodeAtPath(root, op.path)
	if t == nil || !t.Exists() {
		return obs{unspec: true}
	}
	text := func(n *ast.Node) string {
		js, err := n.MarshalJSON()
		if err != nil {
			return "!err:" + err.Error()
		}
		return tokensText(string(js))
	}
	switch op.name {
	case "Get":
		n := t.Get(op.key)
		if n != nil && n.Check() != nil && n.Exists() {
			return obs{err: true}
		}
		if n == nil || !n.Exists() {
			if t.TypeSafe() != ast.V_OBJECT {
				return obs{err: true}
			}
			return obs{ok: false}
		}
		return obs{ok: true, val: text(n)}
	case "Index":
		n := t.Index(op.idx)
		if n == nil || !n.Exists() {
			tt := t.TypeSafe()
			if tt != ast.V_OBJECT && tt != ast.V_ARRAY {
				return obs{err: true}
			}
			return obs{ok: false}
		}
		return obs{ok: true, val: text(n)}
	case "Len":
		l, err := t.Len()
		if err != nil {
			return obs{err: true}
		}
		return obs{ok: true, val: strconv.Itoa(l)}
	case "Set":
		ok, err := t.Set(op.key, newNode(root, op, rawValues))
		return obs{ok: ok, err: err != nil}
	case "SetByIndex":
		ok, err := t.SetByIndex(op.idx, newNode(root, op, rawValues))
		return obs{ok: ok, err: err != nil}
	case "Add":
		err := t.Add(newNode(root, op, rawValues))
		return obs{err: err != nil}
	case "Unset":
		ok, err := t.Unset(op.key)
		return obs{ok: ok, err: err != nil}
	case "UnsetByIndex":
		ok, err := t.UnsetByIndex(op.idx)
		return obs{ok: ok, err: err != nil}
	case "Pop":
		err := t.Pop()
		return obs{err: err != nil}
	case "Move":
		err := t.Move(op.idx, op.idx2)
		return obs{err: err != nil}
	case "SortKeys":
		err := t.SortKeys(op.rec)
		return obs{err: err != nil}
	case "Load":
		t.Load()
		return obs{}
	case "LoadAll":
		t.LoadAll()
		return obs{}
	case "Touch":
		t.Get(op.key)
		t.Index(op.idx)
		return obs{}
	case "SetAny":
		ok, err := t.SetAny(op.key, op.any)
		return obs{ok: ok, err: err != nil}
	case "AddAny":
		err := t.AddAny(op.any)
		return obs{err: err != nil}
	case "SetAnyByIndex":
		ok, err := t.SetAnyByIndex(op.idx, op.any)
		return obs{ok: ok, err: err != nil}
	case "IndexPair":
		if t.TypeSafe() != ast.V_OBJECT {
			return obs{unspec: true}
		}
		p := t.IndexPair(op.idx)
		if p == nil || !p.Value.Exists() {
			return obs{ok: false}
		}
		return obs{ok: true, val: strconv.Quote(p.Key) + ":" + text(&p.Value)}
	case "IndexOrGet":
		n := t.IndexOrGet(op.idx, op.key)
		if n == nil || !n.Exists() {
			if t.TypeSafe() != ast.V_OBJECT {
				return obs{err: true}
			}
			return obs{ok: false}
		}
		return obs{ok: true, val: text(n)}
	case "GetByPath":
		var n *ast.Node
		if t.TypeSafe() == ast.V_OBJECT {
			n = t.GetByPath(op.key, op.key2)
		} else {
			n = t.GetByPath(op.idx, op.key2)
		}
		if n == nil || !n.Exists() {
			return obs{ok: false}
		}
		return obs{ok: true, val: text(n)}
	case "Views":
		switch t.TypeSafe() {
		case ast.V_OBJECT:
			m, err := t.Map()
			mn, err2 := t.MapUseNode()
			x, err3 := t.Interface()
			if err != nil || err2 != nil || err3 != nil {
				return obs{err: true}
			}
			// sizes of the map views count distinct keys; compared through Interface() below
			_, _ = m, mn
			l, _ := t.Len()
			return obs{ok: true, val: strconv.Itoa(l) + "|" + gen.Dump(reflect.ValueOf(&x).Elem())}
		case ast.V_ARRAY:
			a, err := t.Array()
			an, err2 := t.ArrayUseNode()
			x, err3 := t.Interface()
			if err != nil || err2 != nil || err3 != nil {
				return obs{err: true}
			}
			if len(a) != len(an) {
				return obs{ok: true, val: fmt.Sprintf("Array() has %d elements, ArrayUseNode() %d", len(a), len(an))}
			}
			return obs{ok: true, val: strconv.Itoa(len(a)) + "|" + gen.Dump(reflect.ValueOf(&x).Elem())}
		}
		return obs{unspec: true}
	case "Keys":
		switch t.TypeSafe() {
		case ast.V_OBJECT:
			it, err := t.Properties()
			if err != nil {
				return obs{err: true}
			}
			var ks []string
			var p ast.Pair
			for it.Next(&p) {
				ks = append(ks, p.Key)
			}
			return obs{ok: true, val: strings.Join(ks, "\x1f") + "|" + text(t)}
		case ast.V_ARRAY:
			it, err := t.Values()
			if err != nil {
				return obs{err: true}
			}
			n := 0
			var e ast.Node
			for it.Next(&e) {
				n++
			}
			_ = n
			return obs{ok: true, val: text(t)}
		}
		return obs{err: true}
	}
	return obs{unspec: true}
}

func hasDupKeys(m *mval) bool {
	seen := map[string]bool{}
	for _, k := range m.keys {
		if seen[k] {
			return true
		}
		seen[k] = true
	}
	for _, e := range m.elems {
		if hasDupKeys(e) {
			return true
		}
	}
	return false
}

// genOp draws an operation that is meaningful for the current model state.
func genOp(r *gen.Rng, root *mval) c15Op {
	// choose a target: walk down randomly
	var path []interface{}
	cur := root
	for d := 0; d < 4 && len(cur.elems) > 0 && r.Chance(1, 2); d++ {
		k := r.Intn(len(cur.elems))
		if cur.kind == ref.Obj {
			key := cur.keys[k]
			// first occurrence is what Get reaches
			for j, kk := range cur.keys {
				if kk == key {
					k = j
					break
				}
			}
			path = append(path, key)
		} else {
			path = append(path, k)
		}
		cur = cur.elems[k]
	}
	op := c15Op{path: append([]interface{}(nil), path...)}
	keyChoices := append([]string{"nokey", "", "b", "a"}, cur.keys...)
	n := len(cur.elems)
	names := []string{"Get", "Len", "Set", "Add", "Unset", "Pop", "Load", "LoadAll", "Touch", "Keys", "Keys"}
	// SortKeys: only on objects whose subtree has no duplicated key (the order of
	// equal keys after sorting is not specified; sonic's sort is not stable)
	if cur.kind == ref.Obj && !hasDupKeys(cur) {
		names = append(names, "SortKeys", "SortKeys")
	}
	// index addressing stays legal after removals: removed slots are not counted
	names = append(names, "Index", "Index", "SetByIndex", "UnsetByIndex", "Move")
	names = append(names, "SetAny", "AddAny", "SetAnyByIndex", "IndexPair", "IndexOrGet", "GetByPath", "Views")
	op.name = names[r.Intn(len(names))]
	op.key = keyChoices[r.Intn(len(keyChoices))]
	op.idx = r.Range(0, n+1)
	if n > 0 && r.Chance(3, 4) {
		op.idx = r.Intn(n)
	}
	op.idx2 = r.Range(0, n)
	if n > 0 {
		op.idx2 = r.Intn(n)
	}
	op.rec = r.Bool()
	op.val = newValueModel(r)
	op.key2 = []string{"in", "a", "b", "nokey", ""}[r.Intn(5)]

	if r.Chance(1, 3) {
		// move/copy a scalar that already lives in the same document
		p := randomModelPath(r, root)
		if src := modelAt(root, p); src != nil && len(p) > 0 && src.kind != ref.Arr && src.kind != ref.Obj {
			op.from = p
			op.val = src.clone()
		}
	}
	if strings.HasSuffix(op.name, "Any") || strings.HasPrefix(op.name, "SetAny") {
		// Go values with one possible JSON text
		k := r.Intn(6)
		op.any = []interface{}{nil, true, int64(r.Range(-50, 50)), "any s", []interface{}{int64(7), "x", nil}, map[string]interface{}{"only": false}}[k]
		txt, _ := json.Marshal(op.any)
		if mv, ok := modelOf(string(txt)); ok {
			mv.opaque = true
			op.val = mv
			op.from = nil
		}
	}
	// Move only inside arrays with both indexes in range (anything else is not specified)
	if op.name == "Move" && (cur.kind != ref.Arr || n == 0 || op.idx >= n) {
		op.name = "Keys"
	}
	// index addressing on objects addresses pairs: keep to arrays for SetByIndex/UnsetByIndex/Index when holey never happens
	switch op.name {
	case "Touch":
		op.label = strconv.Quote(op.key) + "," + strconv.Itoa(op.idx)
	case "Get", "Set", "Unset":
		op.label = strconv.Quote(op.key)
	case "Index", "SetByIndex", "UnsetByIndex":
		op.label = strconv.Itoa(op.idx)
	case "Move":
		op.label = fmt.Sprintf("%d,%d", op.idx, op.idx2)
	case "SortKeys":
		op.label = strconv.FormatBool(op.rec)
	}
	switch op.name {
	case "SetAny", "IndexOrGet":
		op.label = strconv.Quote(op.key) + "," + strconv.Itoa(op.idx)
	case "SetAnyByIndex", "IndexPair":
		op.label = strconv.Itoa(op.idx)
	case "GetByPath":
		op.label = fmt.Sprintf("%q|%d,%q", op.key, op.idx, op.key2)
	}
	if op.any != nil || strings.HasSuffix(op.name, "Any") {
		op.from = nil
	}
	if op.name == "Set" || op.name == "Add" || op.name == "SetByIndex" || strings.Contains(op.name, "Any") {
		op.label += " <- " + op.val.String()
		if op.from != nil {
			op.label += fmt.Sprintf(" taken from %v", op.from)
		}
	}
	return op
}

type replica struct {
	name string
	root ast.Node
	raw  bool // new values are inserted as raw nodes
}

func c15Replicas(doc string, model *mval, r *gen.Rng) []*replica {
	var rs []*replica
	rs = append(rs, &replica{name: "NewRaw", root: ast.NewRaw(doc), raw: true})
	if n, err := sonic.GetFromString(doc); err == nil {
		rs = append(rs, &replica{name: "Get", root: n})
	}
	if n, err := sonic.GetFromString(doc); err == nil {
		n.Load()
		rs = append(rs, &replica{name: "Load", root: n, raw: true})
	}
	if n, err := sonic.GetFromString(doc); err == nil {
		n.LoadAll()
		rs = append(rs, &replica{name: "LoadAll", root: n})
	}
	rs = append(rs, &replica{name: "constructed", root: toNode(model, false)})
	if n, err := sonic.GetWithOptions([]byte(doc), ast.SearchOptions{ConcurrentRead: true, ValidateJSON: true}); err == nil {
		// partially touched by random reads
		for k := 0; k < 3; k++ {
			p := randomModelPath(r, model)
			nodeAtPath(&n, p)
		}
		rs = append(rs, &replica{name: "touched+ConcurrentRead", root: n, raw: true})
	}
	return rs
}

func randomModelPath(r *gen.Rng, m *mval) []interface{} {
	var path []interface{}
	cur := m
	for d := 0; d < 4 && len(cur.elems) > 0; d++ {
		k := r.Intn(len(cur.elems))
		if cur.kind == ref.Obj {
			path = append(path, cur.keys[k])
			cur = cur.get(cur.keys[k])
		} else {
			path = append(path, k)
			cur = cur.elems[k]
		}
	}
	return path
}

func c15One(c *Ctx, i int, doc string, r *gen.Rng) {
	tree, ok := ref.Parse(doc)
	if !ok {
		return
	}
	model := fromRef(tree)
	c.Vf("DOC %q", doc)
	reps := c15Replicas(doc, model, r)
	nops := r.Range(1, 30)
	var history []string
	fail := func(api, msg string, extra map[string]interface{}) {
		extra["doc"] = q(doc)
		h := history
		if len(h) > 14 {
			h = h[len(h)-14:]
		}
		extra["ops"] = strings.Join(h, " ; ")
		c.Violate(i, api, msg, extra)
	}
	for k := 0; k < nops; k++ {
		op := genOp(r, model)
		history = append(history, op.String())
		c.Vf("OP %s", op.String())
		want := applyModel(model, op)
		c.Count("ops", 1)
		c.Count("op_"+op.name, 1)
		var first obs
		for ri, rep := range reps {
			var got obs
			if c.Guard(i, "ast."+op.name+"/"+rep.name, func() { got = applyNode(&rep.root, op, rep.raw) }) {
				return
			}
			if ri == 0 {
				first = got
			} else if got != first && !(got.unspec || first.unspec) && !(op.name == "Len" && c.Waive["B9"]) {
				fail("ast."+op.name, "replicas that differ only in how they were loaded observe different results", map[string]interface{}{"replica_a": reps[0].name, "a": first.String(), "replica_b": rep.name, "b": got.String()})
				return
			}
			if !want.unspec && !got.unspec && got != want {
				// Len on a lazy (partially parsed) node counts parsed children only: documented WARN
				gl, _ := strconv.Atoi(got.val)
				wl, _ := strconv.Atoi(want.val)
				if op.name == "Len" && got.ok && want.ok && gl < wl && (rep.raw || rep.name == "NewRaw" || rep.name == "Get" || strings.HasPrefix(rep.name, "touched")) {
					c.Known("B9", i, "ast.Len", "Len on a lazy node counts parsed children only", map[string]interface{}{"replica": rep.name, "got": got.val, "want": want.val})
					continue
				}
				fail("ast."+op.name+"/"+rep.name, "observation differs from the ordered-tree model", map[string]interface{}{"got": got.String(), "want": want.String()})
				return
			}
		}
		// after every mutation all replicas must serialise to the model
		switch op.name {
		case "Set", "SetByIndex", "Add", "Unset", "UnsetByIndex", "Pop", "Move", "SortKeys":
			wantTok := tokensText(model.String())
			for _, rep := range reps {
				var js []byte
				var err error
				if c.Guard(i, "ast.MarshalJSON/"+rep.name, func() { js, err = rep.root.MarshalJSON() }) {
					return
				}
				if err != nil || tokensText(string(js)) != wantTok {
					fail("ast.MarshalJSON/"+rep.name, "serialisation after "+op.name+" differs from the model", map[string]interface{}{"got": q(string(js)), "want": q(model.String()), "err": errStr(err)})
					return
				}
			}
		}
	}
	// final: Interface() of every replica equals encoding/json on the model text
	var jv interface{}
	if err := json.Unmarshal([]byte(model.String()), &jv); err == nil && !model.hasOpaque() {
		want := gen.Dump(reflect.ValueOf(&jv).Elem())
		for _, rep := range reps {
			var v interface{}
			var err error
			if c.Guard(i, "ast.Interface/"+rep.name, func() { v, err = rep.root.Interface() }) {
				return
			}
			got := gen.Dump(reflect.ValueOf(&v).Elem())
			if err != nil || negZeroDump.Replace(got) != negZeroDump.Replace(want) {
				a, b := diffAt(got, want)
				fail("ast.Interface/"+rep.name, "final Interface() differs from encoding/json on the model", map[string]interface{}{"got": a, "want": b, "err": errStr(err)})
				return
			}
		}
	}
}

func runC15(c *Ctx) {
	N := c.N(4000, 80000)
	for i := 0; i < N; i++ {
		if c.Stop(i) {
			return
		}
		if !c.Begin(i) {
			continue
		}
		r := c.Rng(i)
		o := gen.DocOpts{MaxDepth: r.Range(1, 4), MaxWidth: []int{2, 5, 17, 18, 34}[r.Intn(5)], MaxStr: 6, WS: r.Bool(), DupKeys: true, EscapeKeys: true}
		var doc string
		switch r.Intn(5) {
		case 0:
			doc = []string{"null", "[]", "{}", `"str"`, "12", "true", `{"a":null}`, `[null]`}[r.Intn(8)]
		case 1: // wide object around the index threshold with duplicates
			var sb strings.Builder
			sb.WriteString("{")
			n := []int{15, 16, 17, 18, 33}[r.Intn(5)]
			for j := 0; j < n; j++ {
				if j > 0 {
					sb.WriteString(",")
				}
				fmt.Fprintf(&sb, `"%s":%s`, []string{"a", "b", "dup", "", "k"}[r.Intn(5)]+strconv.Itoa(r.Intn(6)), []string{"1", `"s"`, "[1,2]", `{"x":1}`, "null"}[r.Intn(5)])
			}
			sb.WriteString("}")
			doc = sb.String()
		default:
			doc = strings.TrimSpace(r.Doc(&o))
		}
		c15One(c, i, doc, r)
		c.Distinct(gen.HashString(doc)^uint64(i), true)
		c.Sample("doc", 3, q(doc))
	}
}

// modelOf parses a JSON text into a model value.
func modelOf(js string) (*mval, bool) {
	tree, ok := ref.Parse(js)
	if !ok {
		return nil, false
	}
	return fromRef(tree), true
}
