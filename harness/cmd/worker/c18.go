package main

import (
	"bytes"
	"encoding/json"
	"fmt"
	"math"
	"reflect"
	"regexp"
	"strconv"
	"strings"
	"unicode/utf8"

	"github.com/bytedance/sonic"
	"github.com/bytedance/sonic/ast"
	"github.com/bytedance/sonic/decoder"
	"github.com/bytedance/sonic/encoder"

	"verifharness/cat"
	"verifharness/gen"
	"verifharness/ref"
)

func init() {
	workloads["C18"] = runC18
	witnesses["B41"] = func() (bool, string) {
		var s string
		e := sonic.Config{UseUnicodeErrors: true}.Froze().UnmarshalFromString(`"\ud800"`, &s)
		return isOptdec && e == nil, fmt.Sprintf("optdec=%v UseUnicodeErrors \"\\ud800\": err=%v value=%q", isOptdec, errStr(e), s)
	}
}

// the 17 switches of sonic.Config, by index
var cfgSwitches = []string{"EscapeHTML", "SortMapKeys", "CompactMarshaler", "NoQuoteTextMarshaler", "NoNullSliceOrMap", "UseInt64", "UseNumber", "UseUnicodeErrors",
	"DisallowUnknownFields", "CopyString", "ValidateString", "NoValidateJSONMarshaler", "NoValidateJSONSkip", "NoEncoderNewline", "EncodeNullForInfOrNan", "CaseSensitive"}

func setSwitch(c *sonic.Config, name string, on bool) {
	reflect.ValueOf(c).Elem().FieldByName(name).SetBool(on)
}

func randomConfig(r *gen.Rng) sonic.Config {
	var c sonic.Config
	for _, s := range cfgSwitches {
		setSwitch(&c, s, r.Bool())
	}
	if c.UseInt64 && c.UseNumber {
		// documented contradiction: decoder.SetOptions panics "can't set OptionUseInt64 and OptionUseNumber both!"
		c.UseInt64 = false
	}
	return c
}

func cfgString(c sonic.Config) string {
	var on []string
	for _, s := range cfgSwitches {
		if reflect.ValueOf(c).FieldByName(s).Bool() {
			on = append(on, s)
		}
	}
	return strings.Join(on, "|")
}

func encOptsOf(c sonic.Config) encoder.Options {
	var o encoder.Options
	m := map[string]encoder.Options{"EscapeHTML": encoder.EscapeHTML, "SortMapKeys": encoder.SortMapKeys, "CompactMarshaler": encoder.CompactMarshaler,
		"NoQuoteTextMarshaler": encoder.NoQuoteTextMarshaler, "NoNullSliceOrMap": encoder.NoNullSliceOrMap, "ValidateString": encoder.ValidateString,
		"NoValidateJSONMarshaler": encoder.NoValidateJSONMarshaler, "NoEncoderNewline": encoder.NoEncoderNewline, "EncodeNullForInfOrNan": encoder.EncodeNullForInfOrNan}
	for k, b := range m {
		if reflect.ValueOf(c).FieldByName(k).Bool() {
			o |= b
		}
	}
	return o
}

func decOptsOf(c sonic.Config) decoder.Options {
	var o decoder.Options
	m := map[string]decoder.Options{"UseInt64": decoder.OptionUseInt64, "UseNumber": decoder.OptionUseNumber, "UseUnicodeErrors": decoder.OptionUseUnicodeErrors,
		"DisallowUnknownFields": decoder.OptionDisableUnknown, "CopyString": decoder.OptionCopyString, "ValidateString": decoder.OptionValidateString,
		"NoValidateJSONSkip": decoder.OptionNoValidateJSON, "CaseSensitive": decoder.OptionCaseSensitive}
	for k, b := range m {
		if reflect.ValueOf(c).FieldByName(k).Bool() {
			o |= b
		}
	}
	return o
}

var ifaceNumTok = regexp.MustCompile(`iface<(json\.Number|float64|int64)>("(?:[^"\\]|\\.)*"|f64\([^)]*\)|int64\([^)]*\))`)

// sortedTokens canonicalises a JSON text: object members sorted by key.
func sortedCanon(js []byte) (string, bool) {
	v, ok := ref.Parse(string(js))
	if !ok {
		return "", false
	}
	var walk func(x *ref.Value) string
	walk = func(x *ref.Value) string {
		switch x.Kind {
		case ref.Arr:
			var ps []string
			for _, e := range x.Elems {
				ps = append(ps, walk(e))
			}
			return "[" + strings.Join(ps, ",") + "]"
		case ref.Obj:
			var ps []string
			for i, e := range x.Elems {
				ps = append(ps, fmt.Sprintf("%q:%s", x.Keys[i], walk(e)))
			}
			sortStrings(ps)
			return "{" + strings.Join(ps, ",") + "}"
		}
		return strings.Join(x.Tokens(nil), " ")
	}
	return walk(v), true
}

func sortStrings(a []string) {
	for i := 1; i < len(a); i++ {
		for j := i; j > 0 && a[j-1] > a[j]; j-- {
			a[j-1], a[j] = a[j], a[j-1]
		}
	}
}

// mapsSorted reports whether in every object of the text that comes from a Go
// map (approximated: every object whose keys are not in struct field order is
// not knowable here) — used only for top-level map values.
func keysAscending(js []byte) bool {
	v, ok := ref.Parse(string(js))
	if !ok || v.Kind != ref.Obj {
		return true
	}
	for i := 1; i < len(v.Keys); i++ {
		if v.Keys[i-1] > v.Keys[i] {
			return false
		}
	}
	return true
}

// ---------------------------------------------------------------------------

const nanSentinel = 1.2345678901234567e+299

func replaceNaN(v reflect.Value, depth int) {
	if depth > 40 {
		return
	}
	switch v.Kind() {
	case reflect.Float64:
		if f := v.Float(); (f != f || math.IsInf(f, 0)) && v.CanSet() {
			v.SetFloat(nanSentinel)
		}
	case reflect.Ptr:
		if !v.IsNil() {
			replaceNaN(v.Elem(), depth+1)
		}
	case reflect.Slice, reflect.Array:
		for i := 0; i < v.Len(); i++ {
			replaceNaN(v.Index(i), depth+1)
		}
	case reflect.Struct:
		for i := 0; i < v.NumField(); i++ {
			replaceNaN(v.Field(i), depth+1)
		}
	}
}

func c18Encode(c *Ctx, i int, r *gen.Rng) {
	sw := []string{"EscapeHTML", "SortMapKeys", "CompactMarshaler", "NoQuoteTextMarshaler", "NoNullSliceOrMap", "ValidateString", "NoValidateJSONMarshaler", "NoEncoderNewline", "EncodeNullForInfOrNan"}[r.Intn(9)]
	R := randomConfig(r)
	setSwitch(&R, sw, false)
	S := R
	setSwitch(&S, sw, true)
	// value
	mode := r.Intn(3)
	var t reflect.Type
	vo := gen.ValOpts{MaxLen: 5, NilChance: 4, BigStrings: r.Chance(1, 6), BadUTF8: sw == "ValidateString" || r.Chance(1, 4)}
	switch {
	case sw == "NoNullSliceOrMap":
		// no interfaces: a nil []byte inside one becomes [] and no value of the same dynamic type encodes to that
		to := c04PureTypes
		to.NoIface = true
		t = r.Type(&to, 0)
	case sw == "CompactMarshaler" || sw == "NoQuoteTextMarshaler" || sw == "NoValidateJSONMarshaler" || mode == 0:
		t = r.Type(&c03TypeOpts, 0)
		vo.Catalogue = encCat
		vo.IfaceTyped = true
	case sw == "EncodeNullForInfOrNan":
		// float64 only (float32 cannot hold the sentinel), no maps: position of every NaN is trackable
		t = reflect.SliceOf(reflect.StructOf([]reflect.StructField{{Name: "A", Type: reflect.TypeOf(0.0)}, {Name: "B", Type: reflect.PtrTo(reflect.TypeOf(0.0))}, {Name: "C", Type: reflect.TypeOf([]float64(nil))}, {Name: "S", Type: reflect.TypeOf("")}}))
		vo.NaN = true
	default:
		t = r.Type(&c04PureTypes, 0)
	}
	rcopy := *r
	v := r.Value(t, &vo, 0)
	// an independent, equal value: the expected-value constructions below edit it in place
	scratch := rcopy.Value(t, &vo, 0)
	hasMap := typeHas(t, func(x reflect.Type) bool { return x.Kind() == reflect.Map || x.Kind() == reflect.Interface })
	if hasMap && sw != "SortMapKeys" {
		// unsorted map order is not defined: both sides sort
		R.SortMapKeys, S.SortMapKeys = true, true
	}
	fr, fs := R.Froze(), S.Froze()
	var outR, outS []byte
	var errR, errS error
	if c.Guard(i, "Marshal", func() { outR, errR = fr.Marshal(v.Interface()); outS, errS = fs.Marshal(v.Interface()) }) {
		return
	}
	c.Count("encode_switch_"+sw, 1)
	detail := func() map[string]interface{} {
		return map[string]interface{}{"switch": sw, "others": cfgString(R), "type": trunc(gen.Describe(t), 300), "value": trunc(gen.Dump(v), 300),
			"without": q(string(outR)), "with": q(string(outS)), "err_without": errStr(errR), "err_with": errStr(errS)}
	}
	fired := false
	bad := func(msg string) { c.Violate(i, "Config."+sw, msg, detail()) }
	switch sw {
	case "EscapeHTML":
		if (errR == nil) != (errS == nil) {
			bad("changes error-or-not")
		} else if errR == nil {
			var hb bytes.Buffer
			json.HTMLEscape(&hb, outR)
			if !bytes.Equal(hb.Bytes(), outS) {
				bad("output is not encoding/json.HTMLEscape of the output without it")
			}
			fired = !bytes.Equal(outR, outS)
		}
	case "SortMapKeys":
		if (errR == nil) != (errS == nil) {
			bad("changes error-or-not")
		} else if errR == nil {
			a, ok1 := sortedCanon(outR)
			b, ok2 := sortedCanon(outS)
			if ok1 && ok2 && a != b {
				bad("changes more than the order of object members")
			}
			if !hasMap && !bytes.Equal(outR, outS) {
				bad("changes the output of a value without maps")
			}
			if t.Kind() == reflect.Map && ok2 && !keysAscending(outS) {
				bad("top-level map keys are not in byte order")
			}
			fired = !bytes.Equal(outR, outS)
		}
	case "NoNullSliceOrMap":
		if typeHas(t, func(x reflect.Type) bool { return x.Kind() == reflect.Slice && x.Elem().Kind() == reflect.Uint8 }) {
			// a nil byte slice becomes [] (as documented for every slice); no Go value of that type encodes to [],
			// so the relation below cannot be stated through a value
			c.Count("encode_switch_skipped_bytes", 1)
			break
		}
		ev := reflect.New(t).Elem()
		ev.Set(scratch)
		fillNilContainers(ev, 0)
		var want []byte
		var werr error
		c.Guard(i, "Marshal", func() { want, werr = fr.Marshal(ev.Interface()) })
		if (werr == nil) != (errS == nil) || (errS == nil && !bytes.Equal(want, outS)) {
			d := detail()
			d["want"] = q(string(want))
			c.Violate(i, "Config."+sw, "output is not the output for the same value with nil slices/maps made empty", d)
		}
		fired = errS == nil && !bytes.Equal(outR, outS)
	case "ValidateString":
		if (errR == nil) != (errS == nil) {
			bad("changes error-or-not")
		} else if errR == nil {
			want := ref.CorrectUTF8(outR, "\\ufffd")
			if !bytes.Equal(want, outS) {
				bad("output is not the output without it with invalid UTF-8 bytes replaced by \\ufffd")
			}
			fired = !bytes.Equal(outR, outS)
		}
	case "EncodeNullForInfOrNan":
		nan := hasNaN(v, 0)
		if !nan {
			if (errR == nil) != (errS == nil) || !bytes.Equal(outR, outS) {
				bad("changes the result for a value without NaN/Inf")
			}
		} else {
			if errR == nil {
				bad("NaN/Inf encoded without the switch")
			}
			ev := reflect.New(t).Elem()
			ev.Set(scratch)
			replaceNaN(ev, 0)
			var want []byte
			c.Guard(i, "Marshal", func() { want, _ = fr.Marshal(ev.Interface()) })
			want = bytes.ReplaceAll(want, []byte("1.2345678901234567e+299"), []byte("null"))
			if errS != nil || !bytes.Equal(want, outS) {
				d := detail()
				d["want"] = q(string(want))
				c.Violate(i, "Config."+sw, "output is not the output with every NaN/Inf replaced by null", d)
			}
			fired = true
		}
	case "CompactMarshaler":
		if S.NoValidateJSONMarshaler || S.NoQuoteTextMarshaler {
			// unvalidated marshaler output: compaction is the first thing that looks at it
			break
		}
		if (errR == nil) != (errS == nil) {
			bad("changes error-or-not")
		} else if errR == nil {
			a, ok1 := tokensOf(outR)
			b, ok2 := tokensOf(outS)
			if ok1 && ok2 && strings.Join(a, "\x00") != strings.Join(b, "\x00") {
				bad("changes the tokens of the output")
			}
			var cb bytes.Buffer
			if ok1 && json.Compact(&cb, outS) == nil && !bytes.Equal(cb.Bytes(), outS) {
				bad("output still contains insignificant white space")
			}
			fired = !bytes.Equal(outR, outS)
		}
	case "NoQuoteTextMarshaler", "NoValidateJSONMarshaler":
		usesText := typeHas(t, func(x reflect.Type) bool {
			tm := reflect.TypeOf((*interface{ MarshalText() ([]byte, error) })(nil)).Elem()
			// (pointer receivers count: addressable values - slice elements, fields behind a pointer - use them)
			return x.Implements(tm) || reflect.PtrTo(x).Implements(tm) || x.Kind() == reflect.Interface
		})
		usesJSON := typeHas(t, func(x reflect.Type) bool {
			return x.Implements(reflect.TypeOf((*json.Marshaler)(nil)).Elem()) || reflect.PtrTo(x).Implements(reflect.TypeOf((*json.Marshaler)(nil)).Elem()) || x.Kind() == reflect.Interface
		})
		if sw == "NoQuoteTextMarshaler" && !usesText || sw == "NoValidateJSONMarshaler" && !usesJSON {
			if (errR == nil) != (errS == nil) || !bytes.Equal(outR, outS) {
				bad("changes the result for a value without such marshalers")
			}
		} else if errR == nil && errS != nil {
			bad("turns a success into an error")
		} else {
			fired = !bytes.Equal(outR, outS) || (errR != nil) != (errS != nil)
		}
	case "NoEncoderNewline":
		if (errR == nil) != (errS == nil) || !bytes.Equal(outR, outS) {
			bad("changes Marshal's result (it only concerns the stream encoder)")
		}
		if errR == nil {
			var wr, ws bytes.Buffer
			e1 := fr.NewEncoder(&wr).Encode(v.Interface())
			e2 := fs.NewEncoder(&ws).Encode(v.Interface())
			if e1 != nil || e2 != nil || wr.String() != ws.String()+"\n" || ws.String() != string(outS) {
				d := detail()
				d["stream_without"], d["stream_with"] = q(wr.String()), q(ws.String())
				c.Violate(i, "Config."+sw, "stream encoder output is not Marshal's bytes (+ newline only without the switch)", d)
			}
			fired = true
		}
	}
	if fired {
		c.Count("encode_switch_fired_"+sw, 1)
	}
	// entry-point equivalence for the same frozen config
	if errS == nil {
		o2, e2 := encoder.Encode(v.Interface(), encOptsOf(S))
		if e2 != nil || !bytes.Equal(o2, outS) {
			c.Violate(i, "encoder.Encode", "differs from Config.Froze().Marshal with the same switches", detail())
		}
		s3, e3 := fs.MarshalToString(v.Interface())
		if e3 != nil || s3 != string(outS) {
			c.Violate(i, "MarshalToString", "differs from Marshal", detail())
		}
		var buf []byte = make([]byte, 0, r.Intn(64))
		buf = append(buf, "pfx"...)
		e4 := encoder.EncodeInto(&buf, v.Interface(), encOptsOf(S)&^(encoder.EscapeHTML|encoder.ValidateString))
		SS := S
		SS.EscapeHTML, SS.ValidateString = false, false
		o5, e5 := SS.Froze().Marshal(v.Interface())
		if (e4 == nil) != (e5 == nil) || (e4 == nil && string(buf) != "pfx"+string(o5)) {
			d := detail()
			d["encodeinto"], d["marshal"] = q(string(buf)), q(string(o5))
			c.Violate(i, "encoder.EncodeInto", "differs from prefix + Marshal with the same switches", d)
		}
		ind, e6 := fs.MarshalIndent(v.Interface(), ">", "  ")
		var ib bytes.Buffer
		if json.Valid(outS) && json.Indent(&ib, outS, ">", "  ") == nil {
			if e6 != nil || !bytes.Equal(ind, ib.Bytes()) {
				d := detail()
				d["indent"] = q(string(ind))
				c.Violate(i, "MarshalIndent", "differs from json.Indent(Marshal)", d)
			}
		}
	}
	c.Distinct(gen.HashString(sw+cfgString(R)+gen.Describe(t)+gen.Dump(v)), true)
	c.Sample("encode/"+sw, 1, map[string]string{"others": cfgString(R), "type": trunc(gen.Describe(t), 120)})
}

// ---------------------------------------------------------------------------

var loneSurrogate = regexp.MustCompile(`\\u[dD][89abAB][0-9a-fA-F]{2}(?:[^\\]|\\[^u]|\\u[^dD]|\\u[dD][^cdefCDEF]|$)|(?:^|[^\\])(?:\\\\)*\\u[dD][c-fC-F][0-9a-fA-F]{2}`)

// hasLoneSurrogate scans the \u escapes of a document whose escapes are all well formed.
func hasLoneSurrogate(doc string) bool {
	u4 := func(i int) (int, bool) {
		if i+6 > len(doc) || doc[i] != '\\' || doc[i+1] != 'u' {
			return 0, false
		}
		n, err := strconv.ParseUint(doc[i+2:i+6], 16, 32)
		return int(n), err == nil
	}
	for i := 0; i < len(doc); i++ {
		if doc[i] != '\\' {
			continue
		}
		if i+1 < len(doc) && doc[i+1] != 'u' {
			i++
			continue
		}
		n, ok := u4(i)
		if !ok {
			continue
		}
		switch {
		case n >= 0xd800 && n < 0xdc00:
			if m, ok := u4(i + 6); ok && m >= 0xdc00 && m < 0xe000 {
				i += 11
				continue
			}
			return true
		case n >= 0xdc00 && n < 0xe000:
			return true
		}
		i += 5
	}
	return false
}

type c18Loose struct {
	A interface{}
	B []interface{}
	C map[string]interface{}
	N float64
	S string
	M map[string]string
	L []string
	Q string `json:"Q,string"`
}

// c18Targeted builds documents in which the switch has something to act on.
func c18Targeted(sw string, r *gen.Rng) *c01Case {
	cs := &c01Case{label: "targeted"}
	ts := []reflect.Type{reflect.TypeOf((*interface{})(nil)).Elem(), reflect.TypeOf(c18Loose{}), reflect.TypeOf([]c18Loose(nil)), reflect.TypeOf(map[string]interface{}(nil))}
	cs.t = ts[r.Intn(len(ts))]
	do := gen.DocOpts{MaxDepth: 3, MaxWidth: 4, MaxStr: 12, WS: r.Bool()}
	onlyQuoted := sw == "UseUnicodeErrors" && r.Chance(1, 3)
	str := func() string {
		switch sw {
		case "UseUnicodeErrors":
			if onlyQuoted {
				// the only risky literal of this document is the twice-quoted one
				qb, _ := json.Marshal(r.ValidString(8))
				return string(qb)
			}
			return `"` + r.EscapedBody(4) + `"`
		case "ValidateString":
			return `"` + strings.NewReplacer(`"`, `'`, `\`, `/`).Replace(r.RawString(24)) + `"`
		}
		return r.ValidString(12)
	}
	val := func() string {
		switch sw {
		case "UseInt64", "UseNumber":
			if r.Bool() {
				return r.NumberLiteral()
			}
			return r.Doc(&do)
		}
		if r.Bool() {
			return str()
		}
		return r.Doc(&do)
	}
	obj := func() string {
		var sb strings.Builder
		sb.WriteString(`{"A":` + val() + `,"B":[` + val() + `,` + val() + `],"C":{"k":` + val() + `,` + str() + `:` + val() + `}`)
		sb.WriteString(`,"N":` + r.NumberLiteral() + `,"S":` + str() + `,"M":{"a":` + str() + `,` + str() + `:` + str() + `},"L":[` + str() + `,` + str() + `]`)
		if sw == "DisallowUnknownFields" && r.Bool() {
			sb.WriteString(`,` + []string{`"a"`, `"Z"`, `"AA"`, `""`, `"n "`, `"Ax"`}[r.Intn(6)] + `:` + val())
		}
		if sw == "UseUnicodeErrors" || r.Chance(1, 3) {
			// a string field with the `,string` option: the literal sits, quoted once more, inside a string
			was := onlyQuoted
			onlyQuoted = false
			inner := str()
			onlyQuoted = was
			if !json.Valid([]byte(inner)) {
				// (a twice-quoted literal whose inner text is not a string literal of its own - a raw control
				// character, invalid UTF-8 - is another subject: left out)
				inner = `"q"`
			}
			if hasLoneSurrogate(inner) {
				cs.loneInQuoted = true
			}
			qb, _ := json.Marshal(inner)
			sb.WriteString(`,"Q":` + string(qb))
		}
		sb.WriteString(`}`)
		return sb.String()
	}
	defer func() {
		// only the struct destinations have the `,string` field
		if k := cs.t.Kind(); k != reflect.Struct && !(k == reflect.Slice && cs.t.Elem().Kind() == reflect.Struct) {
			cs.loneInQuoted = false
		}
	}()
	switch cs.t.Kind() {
	case reflect.Struct:
		cs.doc = obj()
	case reflect.Slice:
		cs.doc = `[` + obj() + `,` + obj() + `]`
	case reflect.Map:
		cs.doc = `{"x":` + val() + `,"y":` + obj() + `}`
	default:
		if r.Bool() {
			cs.doc = obj()
		} else {
			cs.doc = val()
		}
	}
	return cs
}

func c18Decode(c *Ctx, i int, r *gen.Rng) {
	sw := []string{"UseInt64", "UseNumber", "UseUnicodeErrors", "DisallowUnknownFields", "CopyString", "ValidateString", "NoValidateJSONSkip", "CaseSensitive"}[r.Intn(8)]
	R := randomConfig(r)
	setSwitch(&R, sw, false)
	// keep the relation single-variable: the two number switches interact
	if sw == "UseInt64" {
		R.UseNumber = false
	}
	if sw == "UseNumber" {
		R.UseInt64 = false
	}
	S := R
	setSwitch(&S, sw, true)
	cs := genC01Case(c, i)
	if r.Bool() {
		if tc := c18Targeted(sw, r); tc != nil {
			cs = tc
		}
	}
	// types with raw captures see corrected bytes under ValidateString (finding B12): keep them out of that relation
	rawCapture := typeHas(cs.t, func(x reflect.Type) bool {
		return x == reflect.TypeOf(json.RawMessage(nil)) || x.Kind() == reflect.Interface && x.NumMethod() > 0 ||
			reflect.PtrTo(x).Implements(reflect.TypeOf((*json.Unmarshaler)(nil)).Elem()) || reflect.PtrTo(x).Implements(reflect.TypeOf((*interface{ UnmarshalText([]byte) error })(nil)).Elem())
	})
	doc := cs.doc
	fr, fs := R.Froze(), S.Froze()
	dr, ds := newDst(cs), newDst(cs)
	var errR, errS error
	if c.Guard(i, "Unmarshal", func() {
		errR = fr.Unmarshal([]byte(doc), dr.Interface())
		errS = fs.Unmarshal([]byte(doc), ds.Interface())
	}) {
		c.Violate(i, "Unmarshal", "panic context", map[string]interface{}{"switch": sw, "others": cfgString(R), "type": trunc(gen.Describe(cs.t), 300), "doc": q(doc), "label": cs.label})
		return
	}
	// the sign of a decoded zero is finding B24's business (C19): options select different number paths
	negZero := strings.NewReplacer("f32(0x80000000)", "f32(0x0)", "f64(0x8000000000000000)", "f64(0x0)")
	a, b := negZero.Replace(gen.Dump(dr.Elem())), negZero.Replace(gen.Dump(ds.Elem()))
	c.Count("decode_switch_"+sw, 1)
	detail := func() map[string]interface{} {
		x, y := diffAt(a, b)
		return map[string]interface{}{"switch": sw, "others": cfgString(R), "type": trunc(gen.Describe(cs.t), 300), "doc": q(doc), "label": cs.label,
			"without": x, "with": y, "err_without": errStr(errR), "err_with": errStr(errS)}
	}
	bad := func(msg string) { c.Violate(i, "Config."+sw, msg, detail()) }
	valid := json.Valid([]byte(doc))
	fired := false
	same := func() bool { return (errR == nil) == (errS == nil) && (errR != nil || a == b) }
	switch sw {
	case "UseInt64", "UseNumber":
		if (errR == nil) != (errS == nil) {
			// UseInt64 keeps int64-range integers exact where float64 conversion could overflow? no: only errors from out-of-range floats differ
			if !(errR != nil && hasOverflowFloat(doc)) {
				bad("changes error-or-not")
			}
		} else if errR == nil {
			na, nb := ifaceNumTok.ReplaceAllString(a, "NUM"), ifaceNumTok.ReplaceAllString(b, "NUM")
			if na != nb {
				bad("changes more than how numbers land in interface{}")
			}
			fired = a != b
		}
	case "CopyString", "NoValidateJSONSkip":
		if valid && !same() {
			bad("changes the result for a valid document")
		}
		if valid && sw == "CopyString" && errR == nil {
			// the stream entry point: several values through one Decoder, looked at only after the
			// whole stream has been consumed (typed destinations and lazily parsed nodes)
			dd := gen.DefaultDoc
			stream := doc + "\n" + r.Doc(&dd) + " " + doc + "\n" + r.Doc(&dd)
			run := func(api sonic.API, lazy bool) (out []string) {
				defer func() {
					if e := recover(); e != nil {
						out = append(out, fmt.Sprint("PANIC ", e))
					}
				}()
				dec := api.NewDecoder(strings.NewReader(stream))
				var kept []interface{}
				for k := 0; k < 4; k++ {
					var d interface{}
					if lazy {
						d = new(ast.Node)
					} else if k%2 == 0 {
						d = newDst(cs).Interface()
					} else {
						d = new(interface{})
					}
					if err := dec.Decode(d); err != nil {
						out = append(out, "ERR")
						break
					}
					kept = append(kept, d)
				}
				for _, d := range kept {
					if n, ok := d.(*ast.Node); ok {
						raw, err := n.Raw()
						out = append(out, raw+"|"+errStr(err))
					} else {
						out = append(out, negZero.Replace(gen.Dump(reflect.ValueOf(d).Elem())))
					}
				}
				return
			}
			for _, lazy := range []bool{false, true} {
				x, y := strings.Join(run(fr, lazy), " ; "), strings.Join(run(fs, lazy), " ; ")
				if x != y {
					dx, dy := diffAt(x, y)
					d := detail()
					d["stream"], d["stream_without"], d["stream_with"], d["lazy_destinations"] = q(stream), dx, dy, lazy
					c.Violate(i, "Config.CopyString", "changes what a stream Decoder delivered (values read after the whole stream was consumed)", d)
				}
			}
			c.Count("copystring_stream_relations", 1)
		}
		if !valid && sw == "CopyString" && !same() {
			bad("changes the result")
		}
		fired = true
	case "DisallowUnknownFields":
		if errR != nil && errS == nil {
			bad("turns an error into success")
		} else if errR == nil {
			jd := json.NewDecoder(strings.NewReader(doc))
			jd.DisallowUnknownFields()
			jdst := newDst(cs)
			jerr := jd.Decode(jdst.Interface())
			unknown := jerr != nil && strings.Contains(jerr.Error(), "unknown field")
			if unknown && errS == nil && !S.CaseSensitive {
				bad("a key that matches no field is accepted")
			}
			if !unknown && jerr == nil && errS != nil && !S.CaseSensitive {
				bad("rejects a document whose keys all match fields")
			}
			if errS == nil && a != b {
				bad("changes the decoded value")
			}
			fired = errS != nil
		}
	case "ValidateString":
		if rawCapture {
			break
		}
		if cleanStrings(doc) {
			if !same() {
				bad("changes the result for a document without control characters or invalid UTF-8 in strings")
			}
		} else if valid && utf8.ValidString(doc) {
			// (valid JSON cannot contain raw control characters)
		} else if !utf8.ValidString(doc) && errR == nil {
			// invalid UTF-8 is replaced by U+FFFD: same as decoding the corrected document without the switch
			cd := string(ref.CorrectUTF8([]byte(doc), "\xef\xbf\xbd"))
			if !cleanStrings(cd) {
				// raw control characters as well: rejected under the switch, nothing to compare
				break
			}
			d2 := newDst(cs)
			e2 := fr.Unmarshal([]byte(cd), d2.Interface())
			if e2 == nil && (errS != nil || negZero.Replace(gen.Dump(d2.Elem())) != b) {
				bad("result is not the result for the UTF-8-corrected document")
			}
			fired = true
		}
	case "UseUnicodeErrors":
		if cs.loneInQuoted && !hasLoneSurrogate(doc) {
			c.Count("unicode_errors_lone_surrogate_only_in_a_twice_quoted_field", 1)
		}
		if !hasLoneSurrogate(doc) && !cs.loneInQuoted {
			if !same() {
				bad("changes the result for a document without lone surrogate escapes")
			}
		} else {
			if errS == nil && errR == nil && a != b {
				bad("changes the value without reporting an error")
			}
			if cs.label == "targeted" && errR == nil && errS == nil {
				// every string of a targeted document is decoded, none skipped
				if isOptdec {
					c.Known("B41", i, "Config.UseUnicodeErrors", "optdec ignores UseUnicodeErrors", detail())
				} else {
					bad("a lone surrogate escape in a decoded string is not reported")
				}
			}
			fired = errS != nil && errR == nil
		}
	case "CaseSensitive":
		if errR != nil && errS == nil && valid {
			// fewer keys bind: a type error in a case-insensitively matched key disappears - legitimate
		}
		fired = a != b || (errR == nil) != (errS == nil)
	}
	if fired {
		c.Count("decode_switch_fired_"+sw, 1)
	}
	// entry points: decoder.Decoder with the same option bits
	var d3 = newDst(cs)
	dec := decoder.NewDecoder(doc)
	dec.SetOptions(decOptsOf(S))
	e3 := dec.Decode(d3.Interface())
	if e3 == nil {
		e3 = dec.CheckTrailings()
	}
	if (e3 == nil) != (errS == nil) || (errS == nil && negZero.Replace(gen.Dump(d3.Elem())) != b) {
		d := detail()
		d["decoder_err"] = errStr(e3)
		c.Violate(i, "decoder.Decoder", "differs from Config.Froze().Unmarshal with the same switches", d)
	}
	d4 := newDst(cs)
	e4 := fs.UnmarshalFromString(doc, d4.Interface())
	if (e4 == nil) != (errS == nil) || (errS == nil && negZero.Replace(gen.Dump(d4.Elem())) != b) {
		c.Violate(i, "UnmarshalFromString", "differs from Unmarshal", detail())
	}
	c.Distinct(gen.HashString(sw+cfgString(R)+gen.Describe(cs.t)+doc), len(doc) > 1)
	c.Sample("decode/"+sw, 1, map[string]string{"others": cfgString(R), "doc": q(doc)})
}

type csFlat struct {
	Alpha  int
	Alpha2 int    `json:"alpha"`
	Beta   string `json:"BETA"`
	Beta2  string `json:"beta"`
	K      int    `json:"k"`
	Gamma  string `json:"gamma,omitempty"`
	Long   int    `json:"a_rather_long_key_name_for_the_hash_path"`
}

// c18CaseSensitive: top-level struct, keys are case variants of the field names.
func c18CaseSensitive(c *Ctx, i int, r *gen.Rng) {
	types := []reflect.Type{reflect.TypeOf(cat.CaseFold{}), reflect.TypeOf(cat.Big{}), reflect.TypeOf(csFlat{})}
	t := types[r.Intn(len(types))]
	names := []string{}
	exact := map[string]bool{}
	for k := 0; k < t.NumField(); k++ {
		f := t.Field(k)
		n := f.Name
		if tag, ok := f.Tag.Lookup("json"); ok {
			if p := strings.Split(tag, ",")[0]; p != "" && p != "-" {
				n = p
			}
		}
		if f.PkgPath != "" {
			continue
		}
		exact[n] = true
		if f.Type.Kind() == reflect.Int || f.Type.Kind() == reflect.String {
			names = append(names, n)
		}
	}
	var sb, fb strings.Builder
	sb.WriteString("{")
	fb.WriteString("{")
	nk, fk := 0, 0
	for k := 0; k < 6; k++ {
		n := names[r.Intn(len(names))]
		key := n
		if r.Bool() {
			switch r.Intn(3) {
			case 0:
				key = strings.ToUpper(n)
			case 1:
				key = strings.ToLower(n)
			default:
				key = strings.Title(strings.ToLower(n))
			}
		}
		// value by kind: use a number for ints, string for strings — look the field up
		val := fmt.Sprint(r.Range(1, 99))
		for k2 := 0; k2 < t.NumField(); k2++ {
			f := t.Field(k2)
			fn := f.Name
			if tag, ok := f.Tag.Lookup("json"); ok {
				if p := strings.Split(tag, ",")[0]; p != "" && p != "-" {
					fn = p
				}
			}
			if fn == n && f.Type.Kind() == reflect.String {
				val = fmt.Sprintf("%q", "s"+val)
			}
		}
		kb, _ := json.Marshal(key)
		if nk > 0 {
			sb.WriteString(",")
		}
		nk++
		sb.WriteString(string(kb) + ":" + val)
		if exact[key] {
			if fk > 0 {
				fb.WriteString(",")
			}
			fk++
			fb.WriteString(string(kb) + ":" + val)
		}
	}
	sb.WriteString("}")
	fb.WriteString("}")
	doc, filtered := sb.String(), fb.String()
	sv, jv := reflect.New(t), reflect.New(t)
	cfg := sonic.Config{CaseSensitive: true}.Froze()
	serr := cfg.UnmarshalFromString(doc, sv.Interface())
	jerr := json.Unmarshal([]byte(filtered), jv.Interface())
	c.Count("case_sensitive_docs", 1)
	if doc != filtered {
		c.Count("decode_switch_fired_CaseSensitive", 1)
	}
	if (serr == nil) != (jerr == nil) || (serr == nil && gen.Dump(sv.Elem()) != gen.Dump(jv.Elem())) {
		x, y := diffAt(gen.Dump(sv.Elem()), gen.Dump(jv.Elem()))
		c.Violate(i, "Config.CaseSensitive", "result is not that of decoding the document without the keys that only match case-insensitively", map[string]interface{}{"type": t.String(), "doc": q(doc), "filtered": q(filtered), "got": x, "want": y, "err": errStr(serr)})
	}
	c.Distinct(gen.HashString("cs"+doc), true)
}

func runC18(c *Ctx) {
	N := c.N(4000, 250000)
	for i := 0; i < N; i++ {
		if c.Stop(i) {
			return
		}
		if !c.Begin(i) {
			continue
		}
		r := c.Rng(i + 1<<27)
		switch i % 8 {
		case 0, 1, 2, 3:
			c18Encode(c, i, r)
		case 7:
			c18CaseSensitive(c, i, r)
		default:
			c18Decode(c, i, r)
		}
	}
}
