package main

import (
	"bytes"
	"encoding/json"
	"strings"
	"unicode/utf8"

	"github.com/bytedance/sonic"
	"github.com/bytedance/sonic/encoder"
	"github.com/bytedance/sonic/unquote"
	sutf8 "github.com/bytedance/sonic/utf8"

	"verifharness/gen"
	"verifharness/place"
	"verifharness/ref"
)

func init() { workloads["C20"] = runC20 }

var c20Specials = []string{
	`"`, `\`, "\x00", "\x1f", "\n", "\x7f", "<", ">", "&", " ", " ", "\xe2\x80", "\xe2", "\xff",
	"\xc0\x80", "\xed\xa0\x80", "\xf4\x90\x80\x80", "é", "中", "😀", "\xf0\x9f\x98", "\x80", "/",
	`A`, `😀`, `\ud800`, `\udc00`, `\n`, `\"`, `\\`, `\x`, `\u12`,
}

type strHolder struct {
	S string `json:"s,string"`
}

var (
	cfgEsc      = sonic.Config{EscapeHTML: true}.Froze()
	cfgValidate = sonic.Config{ValidateString: true}.Froze()
)

// c20One checks every string routine on one byte string placed at alignment off.
func c20One(c *Ctx, i int, raw string, off int, spare int) {
	data := place.Aligned([]byte(raw), off, []byte(`"\"x`))
	s := place.Str(data)
	validUTF8 := utf8.ValidString(raw)

	// --- Quote: literal that decodes back to the input
	c.Guard(i, "encoder.Quote", func() {
		lit := encoder.Quote(s)
		back, ok := ref.UnquoteLiteral(lit)
		if !ok || back != raw {
			c.Violate(i, "encoder.Quote", "quoted literal does not decode back to the input", map[string]string{"in": q(raw), "out": q(lit), "back": q(back)})
		}
		if !json.Valid([]byte(lit)) {
			c.Violate(i, "encoder.Quote", "quoted literal is not valid JSON", map[string]string{"in": q(raw), "out": q(lit)})
		}
		// through Marshal (default config: same routine, no HTML escaping)
		m, err := sonic.Marshal(s)
		if err != nil || string(m) != lit {
			c.Violate(i, "Marshal(string)", "Marshal of a string differs from encoder.Quote", map[string]string{"in": q(raw), "quote": q(lit), "marshal": q(string(m))})
		}
		// EscapeHTML == json.HTMLEscape of the plain output
		me, err := cfgEsc.Marshal(s)
		var hb bytes.Buffer
		json.HTMLEscape(&hb, []byte(lit))
		if err != nil || !bytes.Equal(me, hb.Bytes()) {
			c.Violate(i, "Marshal(string,EscapeHTML)", "differs from json.HTMLEscape(Quote(s))", map[string]string{"in": q(raw), "want": q(hb.String()), "got": q(string(me))})
		}
		// ValidateString: denotes the input with invalid bytes replaced by U+FFFD
		mv, err := cfgValidate.Marshal(s)
		if err != nil {
			c.Violate(i, "Marshal(string,ValidateString)", "error: "+err.Error(), q(raw))
		} else {
			back, ok := ref.UnquoteLiteral(string(mv))
			want := string(ref.CorrectUTF8([]byte(raw), "�"))
			if !ok || back != want {
				c.Violate(i, "Marshal(string,ValidateString)", "does not denote the UTF-8-corrected input", map[string]string{"in": q(raw), "out": q(string(mv)), "back": q(back)})
			}
		}
		// std agreement on the denoted string (ConfigStd contract)
		ms, err := sonic.ConfigStd.Marshal(s)
		js, _ := json.Marshal(raw)
		if err != nil {
			c.Violate(i, "ConfigStd.Marshal(string)", "error: "+err.Error(), q(raw))
		} else {
			a, ok1 := ref.UnquoteLiteral(string(ms))
			b, ok2 := ref.UnquoteLiteral(string(js))
			if !ok1 || !ok2 || a != b {
				c.Violate(i, "ConfigStd.Marshal(string)", "denoted string differs from encoding/json", map[string]string{"in": q(raw), "sonic": q(string(ms)), "std": q(string(js))})
			}
		}
		// double quoting (",string")
		if validUTF8 {
			md, err := sonic.Marshal(strHolder{s})
			if err != nil {
				c.Violate(i, "Marshal(,string)", "error: "+err.Error(), q(raw))
			} else {
				var h strHolder
				if e := json.Unmarshal(md, &h); e != nil || h.S != raw {
					c.Violate(i, "Marshal(,string)", "double-quoted output does not decode back (std)", map[string]string{"in": q(raw), "out": q(string(md)), "back": q(h.S)})
				}
				var h2 strHolder
				if e := sonic.Unmarshal(md, &h2); e != nil || h2.S != raw {
					c.Violate(i, "Unmarshal(,string)", "double-quoted output does not decode back (sonic)", map[string]string{"in": q(raw), "out": q(string(md)), "back": q(h2.S)})
				}
			}
		}
	})

	// --- unquote.String on the raw bytes taken as an escaped body
	c.Guard(i, "unquote.String", func() {
		got, perr := unquote.String(s)
		want, ok := ref.Unquote(raw, true)
		if (perr == 0) != ok || (ok && got != want) {
			c.Violate(i, "unquote.String", "differs from reference unquote", map[string]interface{}{"in": q(raw), "got": q(got), "err": int(perr), "want": q(want), "wantok": ok})
		}
		// through Unmarshal, when the body is a legal literal body for both
		legal := !strings.ContainsAny(raw, "\x00\x01\x02\x03\x04\x05\x06\x07\x08\x09\x0a\x0b\x0c\x0d\x0e\x0f\x10\x11\x12\x13\x14\x15\x16\x17\x18\x19\x1a\x1b\x1c\x1d\x1e\x1f") && bodyClosed(raw)
		if legal {
			doc := place.Aligned([]byte(`"`+raw+`"`), off, []byte(`"x`))
			var out string
			err := sonic.UnmarshalString(place.Str(doc), &out)
			out = strings.Clone(out)
			if (err == nil) != ok || (ok && out != want) {
				c.Violate(i, "Unmarshal(string)", "differs from reference unquote", map[string]interface{}{"in": q(raw), "got": q(out), "err": errStr(err), "want": q(want), "wantok": ok})
			}
			// the strict mode of the same routine (lone surrogates rejected) through every destination
			// that unquotes: *string, interface{}, a []interface{} element, a map value and an object key
			wantS, okS := ref.Unquote(raw, false)
			for _, route := range c20StrictRoutes {
				gotS, errS := route.run(string(doc))
				if (errS == nil) != okS || (okS && gotS != wantS) {
					c.Violate(i, "UseUnicodeErrors.Unmarshal("+route.name+")", "differs from reference unquote with lone surrogates rejected", map[string]interface{}{"in": q(raw), "got": q(gotS), "err": errStr(errS), "want": q(wantS), "wantok": okS})
				}
			}
			c.Count("strict_surrogate_routes_checked", int64(len(c20StrictRoutes)))
			var out2 string
			err = sonic.ConfigStd.UnmarshalFromString(place.Str(doc), &out2)
			var sout string
			serr := json.Unmarshal(doc, &sout)
			if (err == nil) != (serr == nil) || (err == nil && out2 != sout) {
				c.Violate(i, "ConfigStd.Unmarshal(string)", "differs from encoding/json", map[string]interface{}{"in": q(raw), "got": q(out2), "err": errStr(err), "std": q(sout), "stderr": errStr(serr)})
			}
		}
	})

	// --- HTMLEscape with a destination prefix and varying spare capacity
	c.Guard(i, "encoder.HTMLEscape", func() {
		prefix := "<pre&fix>"
		dst := make([]byte, len(prefix), len(prefix)+spare)
		copy(dst, prefix)
		got := encoder.HTMLEscape(dst, data)
		var hb bytes.Buffer
		hb.WriteString(prefix)
		json.HTMLEscape(&hb, []byte(raw))
		if !bytes.Equal(got, hb.Bytes()) {
			c.Violate(i, "encoder.HTMLEscape", "differs from prefix+json.HTMLEscape(src)", map[string]interface{}{"in": q(raw), "spare": spare, "got": q(string(got)), "want": q(hb.String())})
		}
		if string(data) != raw {
			c.Violate(i, "encoder.HTMLEscape", "source modified", q(raw))
		}
		got2 := encoder.HTMLEscape(nil, data)
		if !bytes.Equal(got2, hb.Bytes()[len(prefix):]) {
			c.Violate(i, "encoder.HTMLEscape(nil)", "differs from json.HTMLEscape(src)", map[string]interface{}{"in": q(raw), "got": q(string(got2))})
		}
	})

	// --- UTF-8 validation and correction
	c.Guard(i, "utf8", func() {
		if g := sutf8.Validate(data); g != validUTF8 {
			c.Violate(i, "utf8.Validate", "differs from unicode/utf8.Valid", map[string]interface{}{"in": q(raw), "got": g})
		}
		if g := sutf8.ValidateString(s); g != validUTF8 {
			c.Violate(i, "utf8.ValidateString", "differs from unicode/utf8.ValidString", map[string]interface{}{"in": q(raw), "got": g})
		}
		for _, repl := range []string{"�", "", "??"} {
			prefix := "pfx"
			dst := make([]byte, len(prefix), len(prefix)+spare)
			copy(dst, prefix)
			got := sutf8.CorrectWith(dst, data, repl)
			want := append([]byte(prefix), ref.CorrectUTF8([]byte(raw), repl)...)
			if !bytes.Equal(got, want) {
				c.Violate(i, "utf8.CorrectWith", "differs from byte-wise replacement", map[string]interface{}{"in": q(raw), "repl": repl, "spare": spare, "got": q(string(got)), "want": q(string(want))})
			}
		}
	})
	if string(data) != raw {
		c.Violate(i, "any", "input bytes were modified", q(raw))
	}
}

// bodyClosed reports whether raw, used as a literal body, contains no
// unescaped quote and does not end in a dangling backslash.
func bodyClosed(raw string) bool {
	for i := 0; i < len(raw); i++ {
		if raw[i] == '\\' {
			i++
			if i >= len(raw) {
				return false
			}
			continue
		}
		if raw[i] == '"' {
			return false
		}
	}
	return true
}

func errStr(e error) string {
	if e == nil {
		return ""
	}
	return trunc(e.Error(), 300)
}

func runC20(c *Ctx) {
	// Part 1: exhaustive sweep  length x position x special, alignment rotating.
	L := c.N(72, 200)
	idx := 0
	g := 0
	fill := []string{"a", "é", "\\n"}
	for n := 0; n <= L; n++ {
		for p := 0; p <= n; p++ {
			for si, sp := range c20Specials {
				g++
				if !c.Mine(g) {
					continue
				}
				i := idx
				idx++
				if c.Stop(i) {
					return
				}
				if !c.Begin(i) {
					continue
				}
				f := fill[(n+si)%len(fill)]
				body := strings.Repeat(f, n/len(f)+1)
				// keep the filler on a unit boundary so that the base string is well formed
				pp := p / len(f) * len(f)
				nn := n / len(f) * len(f)
				raw := body[:pp] + sp + body[pp:nn]
				c20One(c, i, raw, (n*7+p+si)%64, (p*5+si)%41)
				c.Distinct(gen.HashString(raw), len(raw) > 0)
				c.Count("sweep_cases", 1)
				if n == 33 && p == 17 {
					c.Sample("sweep", 3, q(raw))
				}
			}
		}
	}
	c.Count("sweep_maxlen", int64(L))
	// Part 2: random strings (raw bytes and escape bodies)
	N := c.N(9000, 400000)
	for k := 0; k < N; k++ {
		i := idx
		idx++
		if c.Stop(i) {
			return
		}
		if !c.Begin(i) {
			continue
		}
		r := c.Rng(i)
		var raw string
		switch r.Intn(3) {
		case 0:
			raw = r.RawString(c.N(300, 5000))
		case 1:
			raw = r.EscapedBody(12)
		default:
			raw = r.RawString(80) + r.EscapedBody(6) + r.RawString(40)
		}
		if r.Chance(1, 200) {
			// > 4096 invalid bytes: position-list overflow path of the UTF-8 validator
			raw = strings.Repeat("\xff", 4090+r.Intn(20)) + raw
		}
		c20One(c, i, raw, r.Intn(64), r.Intn(70))
		c.Distinct(gen.HashString(raw), len(raw) > 0)
		c.Count("random_cases", 1)
		c.Sample("random", 3, q(raw))
	}
}


var c20Strict = sonic.Config{UseUnicodeErrors: true}.Froze()

type c20Route struct {
	name string
	run  func(lit string) (string, error)
}

var c20StrictRoutes = []c20Route{
	{"*string", func(lit string) (string, error) {
		var s string
		err := c20Strict.UnmarshalFromString(lit, &s)
		return strings.Clone(s), err
	}},
	{"interface{}", func(lit string) (string, error) {
		var v interface{}
		err := c20Strict.UnmarshalFromString(lit, &v)
		s, _ := v.(string)
		return strings.Clone(s), err
	}},
	{"[]interface{} element", func(lit string) (string, error) {
		var v []interface{}
		err := c20Strict.UnmarshalFromString("[1,"+lit+"]", &v)
		if err != nil || len(v) != 2 {
			return "", err
		}
		s, _ := v[1].(string)
		return strings.Clone(s), err
	}},
	{"map[string]interface{} value", func(lit string) (string, error) {
		var v map[string]interface{}
		err := c20Strict.UnmarshalFromString(`{"k":`+lit+`}`, &v)
		s, _ := v["k"].(string)
		return strings.Clone(s), err
	}},
	{"object key", func(lit string) (string, error) {
		var v interface{}
		err := c20Strict.UnmarshalFromString(`{`+lit+`:1}`, &v)
		if err != nil {
			return "", err
		}
		for k := range v.(map[string]interface{}) {
			return strings.Clone(k), nil
		}
		return "", nil
	}},
	{"struct field", func(lit string) (string, error) {
		var v struct{ S string }
		err := c20Strict.UnmarshalFromString(`{"S":`+lit+`}`, &v)
		return strings.Clone(v.S), err
	}},
}
