package main

import (
	"bytes"
	"encoding/json"
	"errors"
	"fmt"
	"io"
	"reflect"
	"regexp"
	"strconv"
	"strings"

	"github.com/bytedance/sonic"
	"github.com/bytedance/sonic/ast"
	"github.com/bytedance/sonic/decoder"
	"github.com/bytedance/sonic/encoder"

	"verifharness/gen"
)

func init() {
	workloads["C17"] = runC17
	witnesses["B49"] = func() (bool, string) {
		d := sonic.ConfigStd.NewDecoder(strings.NewReader(`true "x" false`))
		var got []string
		for k := 0; k < 4; k++ {
			var b bool
			err := d.Decode(&b)
			if err == io.EOF {
				got = append(got, "EOF")
				break
			}
			got = append(got, fmt.Sprintf("%v/%T", b, err))
		}
		// encoding/json: true, *json.UnmarshalTypeError, false, EOF
		return len(got) >= 3 && !strings.HasPrefix(got[2], "false/<nil>"), "stream `true \"x\" false` into *bool: " + strings.Join(got, " ; ")
	}
}

var cfgStreamNum = sonic.Config{CopyString: true, ValidateString: true, UseNumber: true}.Froze()

var errBoom =errors.New("verif: injected reader/writer failure")

// chunkReader delivers data cut at the given offsets; it can interleave empty
// reads, deliver the last chunk together with io.EOF, and fail at a byte offset.
type chunkReader struct {
	data    []byte
	cuts    []int // ascending offsets where a Read must stop
	pos     int
	emptyAt map[int]bool // before delivering from this offset, return (0, nil) once
	didEmpty map[int]bool
	eofWithData bool
	failAt  int // -1: never; otherwise after delivering failAt bytes the next Read returns errBoom
	reads   int
	eofSent bool
	// failWithData: the Read that delivers the last byte before failAt returns the failure together
	// with that data ("it may return the (non-nil) error from the same call", io.Reader) and reports
	// it only once: later Reads return (0, io.EOF)
	failWithData bool
	failSent     bool
}

func (r *chunkReader) Read(p []byte) (int, error) {
	r.reads++
	if r.eofSent {
		return 0, io.EOF // a well-behaved reader keeps reporting EOF
	}
	if r.failSent {
		return 0, io.EOF
	}
	if r.failAt >= 0 && r.pos >= r.failAt {
		if r.failWithData {
			r.failSent = true
		}
		return 0, errBoom
	}
	if r.pos >= len(r.data) {
		return 0, io.EOF
	}
	if r.emptyAt[r.pos] && !r.didEmpty[r.pos] {
		r.didEmpty[r.pos] = true
		return 0, nil
	}
	end := len(r.data)
	for _, c := range r.cuts {
		if c > r.pos {
			end = c
			break
		}
	}
	if r.failAt >= 0 && end > r.failAt {
		end = r.failAt
	}
	if end > r.pos+len(p) {
		end = r.pos + len(p)
	}
	n := copy(p, r.data[r.pos:end])
	r.pos += n
	if r.failWithData && r.failAt >= 0 && r.pos >= r.failAt && n > 0 {
		r.failSent = true
		return n, errBoom
	}
	if r.eofWithData && r.pos >= len(r.data) && n > 0 {
		r.eofSent = true
		return n, io.EOF
	}
	return n, nil
}

type streamResult struct {
	vals  []string // canonical dumps
	term  string   // "EOF" | "ERR" | "BOOM"
	err   error
	calls int
	// indexes of values whose dump changed after later Decode calls
	changed []int
}

type jsonDecoder interface {
	Decode(interface{}) error
}

func runStream(d jsonDecoder, maxCalls int, offset func() int64) (res streamResult, noProgress bool) {
	return runStreamInto(d, maxCalls, offset, func() interface{} { return new(interface{}) }, func(p interface{}) string { return gen.Dump(reflect.ValueOf(p).Elem()) })
}

// c17NodeDump: what a lazily parsed destination describes (its raw text as a token stream).
func c17NodeDump(p interface{}) string {
	n := p.(*ast.Node)
	raw, err := n.Raw()
	if err != nil {
		return "ERR " + err.Error()
	}
	if toks, ok := tokensOf([]byte(raw)); ok {
		return strings.Join(toks, " ")
	}
	return "NOT-JSON " + raw
}

func c17RawDump(p interface{}) string {
	if toks, ok := tokensOf([]byte(*p.(*json.RawMessage))); ok {
		return strings.Join(toks, " ")
	}
	return "NOT-JSON " + string(*p.(*json.RawMessage))
}

func runStreamInto(d jsonDecoder, maxCalls int, offset func() int64, newDst func() interface{}, dump func(interface{}) string) (res streamResult, noProgress bool) {
	last := int64(-1)
	if offset != nil {
		last = offset()
	}
	var kept []interface{}
	defer func() {
		// values returned earlier must not change when Decode is called again (they
		// must not alias the stream's read buffer)
		for k, p := range kept {
			if k < len(res.vals) && dump(p) != res.vals[k] {
				res.changed = append(res.changed, k)
			}
		}
	}()
	for k := 0; k < maxCalls; k++ {
		v := newDst()
		err := d.Decode(v)
		kept = append(kept, v)
		res.calls++
		if err != nil {
			kept = kept[:len(kept)-1]
			res.err = err
			switch {
			case err == io.EOF:
				res.term = "EOF"
			case err == errBoom:
				res.term = "BOOM"
			default:
				res.term = "ERR"
			}
			return
		}
		res.vals = append(res.vals, dump(v))
		if offset != nil {
			now := offset()
			if now <= last {
				noProgress = true
				return
			}
			last = now
		}
	}
	res.term = "NOEND"
	return
}

func sameVals(a, b []string) bool {
	if len(a) != len(b) {
		return false
	}
	for i := range a {
		if a[i] != b[i] {
			return false
		}
	}
	return true
}

var numLit = regexp.MustCompile(`-?[0-9]+(\.[0-9]+)?([eE][+-]?[0-9]+)?`)

// streamHasOverflowFloat: some number-shaped token of the input (a concatenation of values,
// possibly malformed at the end) lies beyond the float64 range.
func streamHasOverflowFloat(input string) bool {
	for _, m := range numLit.FindAllString(input, -1) {
		if _, err := strconv.ParseFloat(m, 64); err != nil {
			return true
		}
	}
	return false
}

// in a stream a top-level -0 may follow any byte (0-0 is two values)
var streamNegZero = regexp.MustCompile(`-0([^.eE]|$)`)

var negZeroDump =strings.NewReplacer("f64(0x8000000000000000)", "f64(0x0)")

// runTyped decodes every value of the stream into a fresh destination of one type; a value of
// another type is an error of that VALUE (encoding/json: *UnmarshalTypeError, sonic:
// *decoder.MismatchTypeError), after which the stream must go on with the next value.
func runTyped(d jsonDecoder, maxCalls int, newDst func() interface{}, typeErr func(error) bool) (vals []string, term string) {
	for k := 0; k < maxCalls; k++ {
		v := newDst()
		err := d.Decode(v)
		switch {
		case err == nil:
			vals = append(vals, negZeroDump.Replace(gen.Dump(reflect.ValueOf(v).Elem())))
		case typeErr(err):
			vals = append(vals, "TYPE-ERROR")
		case err == io.EOF:
			return vals, "EOF"
		case err == errBoom:
			return vals, "BOOM"
		default:
			return vals, "ERR"
		}
	}
	return vals, "NOEND"
}

var c17TypedDsts = []struct {
	name string
	mk   func() interface{}
}{
	{"*string", func() interface{} { return new(string) }},
	// (no *bool: known finding B49, avoid-mode - a wrong-kind value shorter than 4 bytes at the end of
	// its frame is a SyntaxError for a bool destination, which ends the stream)
	{"*[]interface{}", func() interface{} { return new([]interface{}) }},
	{"*map[string]interface{}", func() interface{} { return new(map[string]interface{}) }},
	{"*struct{A []string}", func() interface{} { return new(struct{ A []string }) }},
}

// c17Typed: typed destinations, values of the wrong type in the middle of the stream.
func c17Typed(c *Ctx, i int, input string, mk func() *chunkReader, what string) {
	if streamHasOverflowFloat(input) || streamNegZero.MatchString(input) {
		return // number range errors / the sign of zero are other findings' business
	}
	dst := c17TypedDsts[(i+len(input))%len(c17TypedDsts)]
	maxCalls := len(input) + 3
	jvals, jterm := runTyped(json.NewDecoder(mk()), maxCalls, dst.mk, func(e error) bool { _, ok := e.(*json.UnmarshalTypeError); return ok })
	var svals []string
	var sterm string
	if c.Guard(i, "stream Decode", func() {
		svals, sterm = runTyped(sonic.ConfigStd.NewDecoder(mk()), maxCalls, dst.mk, func(e error) bool { _, ok := e.(*decoder.MismatchTypeError); return ok })
	}) {
		return
	}
	c.Count("decoder_runs_typed_destination", 1)
	mism := 0
	for _, v := range jvals {
		if v == "TYPE-ERROR" {
			mism++
		}
	}
	if mism > 0 {
		c.Count("typed_streams_with_a_value_of_the_wrong_type", 1)
	}
	if jterm == "BOOM" || sterm == "BOOM" {
		// reader failures next to a value: the finer tolerances are applied by c17Check; here only prefixes are compared
		m := len(jvals)
		if len(svals) < m {
			m = len(svals)
		}
		jvals, svals = jvals[:m], svals[:m]
		jterm, sterm = "", ""
	}
	if jterm == "ERR" && sterm == "BOOM" {
		sterm = "ERR"
	}
	if !sameVals(svals, jvals) || sterm != jterm {
		d := map[string]interface{}{"input": q(input), "reader": what, "destination": dst.name, "sonic": fmt.Sprint(len(svals), " values, end ", sterm), "std": fmt.Sprint(len(jvals), " values, end ", jterm)}
		for k := 0; k < len(svals) && k < len(jvals); k++ {
			if svals[k] != jvals[k] {
				d["first_difference"] = fmt.Sprintf("value %d: sonic %s | std %s", k, trunc(svals[k], 200), trunc(jvals[k], 200))
				break
			}
		}
		c.Violate(i, "ConfigStd.NewDecoder -> "+dst.name, "typed destination: value sequence / terminal condition differs from encoding/json.Decoder on the same bytes", d)
	}
}

func c17Check(c *Ctx, i int, input string, mk func() *chunkReader, what string) {
	c.Count("decoder_runs", 1)
	c17Typed(c, i, input, mk, what)
	maxCalls := len(input) + 3
	// encoding/json on the very same reader behaviour
	jr := mk()
	jres, _ := runStream(json.NewDecoder(jr), maxCalls, nil)
	jresDefault := jres
	jresRaw, _ := runStreamInto(json.NewDecoder(mk()), maxCalls, nil, func() interface{} { return new(json.RawMessage) }, c17RawDump)
	for variant := 0; variant < 5; variant++ {
		sr := mk()
		var sres streamResult
		var stuck bool
		api := ""
		jres = jresDefault
		if variant == 2 {
			// json.Number values reference text: with UseNumber the oracle is encoding/json with UseNumber
			jd := json.NewDecoder(mk())
			jd.UseNumber()
			jres, _ = runStream(jd, maxCalls, nil)
		}
		if variant >= 3 {
			// lazily parsed destinations keep referring to their source text: the oracle is what
			// encoding/json delivers into a json.RawMessage (token streams)
			jres = jresRaw
		}
		ok := !c.Guard(i, "stream Decode", func() {
			if variant == 3 {
				api = "ConfigStd.NewDecoder -> *ast.Node"
				sres, stuck = runStreamInto(sonic.ConfigStd.NewDecoder(sr), maxCalls, nil, func() interface{} { return new(ast.Node) }, c17NodeDump)
			} else if variant == 4 {
				api = "ConfigDefault.NewDecoder -> *ast.Node"
				sres, stuck = runStreamInto(sonic.ConfigDefault.NewDecoder(sr), maxCalls, nil, func() interface{} { return new(ast.Node) }, c17NodeDump)
			} else if variant == 0 {
				api = "ConfigDefault.NewDecoder"
				sres, stuck = runStream(sonic.ConfigDefault.NewDecoder(sr), maxCalls, nil)
			} else if variant == 2 {
				api = "Config{CopyString,ValidateString,UseNumber}.NewDecoder"
				sres, stuck = runStream(cfgStreamNum.NewDecoder(sr), maxCalls, nil)
			} else {
				api = "decoder.NewStreamDecoder"
				sd := decoder.NewStreamDecoder(sr)
				sres, stuck = runStream(sd, maxCalls, sd.InputOffset)
			}
		})
		if !ok {
			continue
		}
		detail := func() map[string]interface{} {
			return map[string]interface{}{"input": q(input), "reader": what, "sonic_values": len(sres.vals), "std_values": len(jres.vals),
				"sonic_end": sres.term + ":" + errStr(sres.err), "std_end": jres.term + ":" + errStr(jres.err)}
		}
		if stuck {
			c.Violate(i, api, "Decode returned nil without advancing InputOffset", detail())
			continue
		}
		if len(sres.changed) > 0 {
			d := detail()
			d["changed_value_indexes"] = fmt.Sprint(sres.changed)
			c.Violate(i, api, "a value returned by an earlier Decode changed after later Decode calls", d)
			continue
		}
		if sres.term == "NOEND" {
			c.Violate(i, api, "Decode kept returning nil beyond len(input)+3 calls", detail())
			continue
		}
		if jr.failWithData {
			// The reader reports its failure once, together with the last bytes it delivers. encoding/json
			// itself forgets such an error when a complete value came with it, so the oracle here is the
			// statement: the values completely contained in the delivered bytes (encoding/json on exactly
			// those bytes), then the reader's error by identity - or a syntax error if the delivered bytes
			// already contain one; never a clean end of the stream.
			fa := jr.failAt
			if fa > len(input) {
				fa = len(input)
			}
			ud := json.NewDecoder(strings.NewReader(input[:fa]))
			if variant == 2 {
				ud.UseNumber()
			}
			upper, _ := runStream(ud, maxCalls, nil)
			if variant >= 3 {
				upper, _ = runStreamInto(json.NewDecoder(strings.NewReader(input[:fa])), maxCalls, nil, func() interface{} { return new(json.RawMessage) }, c17RawDump)
			}
			nz := func(xs []string) []string {
				o := make([]string, len(xs))
				for k, x := range xs {
					o[k] = negZeroDump.Replace(x)
				}
				return o
			}
			sv, uv := nz(sres.vals), nz(upper.vals)
			okVals := len(sv) <= len(uv) && sameVals(sv, uv[:len(sv)]) &&
				(len(sv) == len(uv) || (len(sv) == len(uv)-1 && fa > 0 && strings.IndexByte("0123456789.eE+-", input[fa-1]) >= 0))
			okTerm := (sres.term == "BOOM" && sres.err == errBoom) || (sres.term == "ERR" && upper.term == "ERR")
			if variant >= 3 && isOptdec && streamHasOverflowFloat(input) {
				okVals, okTerm = true, true // finding B20
			}
			if !okVals || !okTerm {
				d := detail()
				d["values_complete_in_delivered_bytes"] = len(uv)
				d["delivered_bytes_end"] = upper.term
				c.Violate(i, api, "reader failure reported once together with data: the values before it and then the reader's error are expected", d)
			}
			c.Count("reader_failures_delivered_with_data", 1)
			continue
		}
		// known finding B24 (literal -0 decodes to +0) would mask everything else on
		// inputs with a top-level -0: compare modulo the sign of zero there
		if streamNegZero.MatchString(input) && c.Waive["B24"] {
			m := len(sres.vals)
			if len(jres.vals) < m {
				m = len(jres.vals)
			}
			nzv := func(xs []string) []string {
				o := make([]string, len(xs))
				for k, x := range xs {
					o[k] = negZeroDump.Replace(x)
				}
				return o
			}
			ns, nj := nzv(sres.vals), nzv(jres.vals)
			if !sameVals(sres.vals[:m], jres.vals[:m]) && sameVals(ns[:m], nj[:m]) {
				c.Known("B24", i, api, "literal -0 decodes to +0", q(input))
			}
			sres.vals = ns
			jvals := nj
			jr2 := jres
			jr2.vals = jvals
			jres = jr2
		}
		// values
		if !sameVals(sres.vals, jres.vals) {
			// A reader *failure*: encoding/json recognises the end of a value one byte late,
			// so it may not return a value whose last byte was the last byte delivered.
			// What must hold: sonic returns at least the values encoding/json returned
			// with this reader, and at most the values contained in the delivered bytes
			// (= encoding/json on exactly those bytes followed by a clean EOF).
			if jres.term == "BOOM" && sres.term == "BOOM" && jr.failAt >= 0 && jr.failAt <= len(input) &&
				len(sres.vals) > len(jres.vals) && sameVals(sres.vals[:len(jres.vals)], jres.vals) {
				ud := json.NewDecoder(strings.NewReader(input[:jr.failAt]))
				if variant == 2 {
					ud.UseNumber()
				}
				upper, _ := runStream(ud, maxCalls, nil)
				if variant >= 3 {
					upper, _ = runStreamInto(json.NewDecoder(strings.NewReader(input[:jr.failAt])), maxCalls, nil, func() interface{} { return new(json.RawMessage) }, c17RawDump)
				}
				if streamNegZero.MatchString(input) && c.Waive["B24"] {
					for k := range upper.vals {
						upper.vals[k] = negZeroDump.Replace(upper.vals[k])
					}
				}
				if len(sres.vals) <= len(upper.vals) && sameVals(sres.vals, upper.vals[:len(sres.vals)]) {
					c.Count("complete_value_before_reader_failure_returned", 1)
					continue
				}
			}
			nz := func(xs []string) []string {
				o := make([]string, len(xs))
				for k, x := range xs {
					o[k] = negZeroDump.Replace(x)
				}
				return o
			}
			if streamNegZero.MatchString(input) && sameVals(nz(sres.vals), nz(jres.vals)) && sres.term == jres.term {
				c.Known("B24", i, api, "literal -0 decodes to +0", q(input))
				continue
			}
			if variant >= 3 && isOptdec && streamHasOverflowFloat(input) {
				// known finding B20: optdec rejects a number literal beyond the float64 range even where it is kept as text
				c.Known("B20", i, api, "optdec rejects an out-of-range float literal that is only captured as text", q(input))
				continue
			}
			d := detail()
			for k := 0; k < len(sres.vals) && k < len(jres.vals); k++ {
				if sres.vals[k] != jres.vals[k] {
					d["first_difference"] = fmt.Sprintf("value %d: sonic %s | std %s", k, trunc(sres.vals[k], 200), trunc(jres.vals[k], 200))
					break
				}
			}
			c.Violate(i, api, "value sequence differs from encoding/json.Decoder on the same bytes", d)
			continue
		}
		// terminal condition
		if sres.term != jres.term {
			if jres.term == "ERR" && sres.term == "BOOM" {
				// both a syntax error and a reader failure apply: encoding/json reports the
				// syntax error as soon as it sees the offending byte, sonic first asks the
				// reader for more and reports the reader's failure. Either is an error, the
				// reader's error is unchanged: tolerated.
				c.Count("reader_failure_reported_before_syntax_error", 1)
				continue
			}
			if jres.term == "ERR" && sres.term == "EOF" {
				c.Violate(i, api, "malformed or truncated trailing data ended in a clean io.EOF", detail())
			} else {
				c.Violate(i, api, "terminal condition differs from encoding/json.Decoder", detail())
			}
			continue
		}
		if sres.term == "BOOM" && sres.err != errBoom {
			c.Violate(i, api, "reader error was not returned unchanged", detail())
		}
	}
}

func c17Inputs(r *gen.Rng, small bool) string {
	var sb strings.Builder
	n := r.Range(1, 5)
	opts := gen.DocOpts{MaxDepth: 2, MaxWidth: 3, MaxStr: 6, WS: true}
	for k := 0; k < n; k++ {
		switch r.Intn(9) {
		case 0:
			sb.WriteString(r.SimpleNumber())
		case 1:
			sb.WriteString([]string{"true", "false", "null"}[r.Intn(3)])
		case 2:
			sb.WriteString(r.ValidString(8))
		case 3:
			sb.WriteString([]string{"{}", "[]", `""`, "0", `[[]]`, `{"a":{}}`}[r.Intn(6)])
		case 4:
			sb.WriteString(`"escé\n\"\\"`)
		default:
			sb.WriteString(strings.TrimSpace(r.Doc(&opts)))
		}
		// separator (none is legal between self-delimiting values)
		switch r.Intn(8) {
		case 0:
		case 1, 2:
			sb.WriteString(" ")
		case 3:
			sb.WriteString("\n")
		case 4:
			sb.WriteString(" \t\r\n ")
		case 5:
			if !small {
				sb.WriteString(strings.Repeat(" ", r.Range(4000, 4200)))
			} else {
				sb.WriteString("  ")
			}
		default:
			sb.WriteString("\n")
		}
	}
	// trailing class
	switch r.Intn(10) {
	case 0:
		sb.WriteString([]string{"x", "}", "]", ",", ":", "tru", `"abc`, `{"a":`, "[1,", "-", "1e", "\x00", "nul", `{"a" 1}`}[r.Intn(14)])
	case 1:
		s := sb.String()
		if len(s) > 1 {
			return s[:r.Range(1, len(s)-1)] // truncation anywhere
		}
	}
	return sb.String()
}

func runC17(c *Ctx) {
	idx := 0
	next := func() (int, bool, bool) {
		i := idx
		idx++
		if c.Stop(i) {
			return i, false, true
		}
		return i, c.Begin(i), false
	}
	newReader := func(data string) *chunkReader {
		return &chunkReader{data: []byte(data), failAt: -1, emptyAt: map[int]bool{}, didEmpty: map[int]bool{}}
	}
	// ---- Part 1: small inputs, every single cut, every pair of cuts, every failure position
	N1 := c.N(200, 3000)
	for k := 0; k < N1; k++ {
		i, run, stop := next()
		if stop {
			return
		}
		if !run {
			continue
		}
		r := c.Rng(i)
		input := c17Inputs(r, true)
		if len(input) > 40 {
			input = input[:40]
		}
		c.Sample("small-input", 3, q(input))
		c.Distinct(gen.HashString(input), len(input) > 0)
		L := len(input)
		c17Check(c, i, input, func() *chunkReader { return newReader(input) }, "whole")
		c17Check(c, i, input, func() *chunkReader { rd := newReader(input); rd.eofWithData = true; return rd }, "whole+EOF-with-data")
		for a := 1; a < L; a++ {
			a := a
			c17Check(c, i, input, func() *chunkReader { rd := newReader(input); rd.cuts = []int{a}; return rd }, fmt.Sprintf("cut@%d", a))
			c.Count("single_cuts", 1)
			if L <= 26 {
				for b := a + 1; b < L; b++ {
					b := b
					c17Check(c, i, input, func() *chunkReader {
						rd := newReader(input)
						rd.cuts = []int{a, b}
						rd.emptyAt[b] = true
						return rd
					}, fmt.Sprintf("cuts@%d,%d+empty-read", a, b))
					c.Count("cut_pairs", 1)
				}
			}
		}
		for p := 0; p <= L; p++ {
			p := p
			c17Check(c, i, input, func() *chunkReader { rd := newReader(input); rd.failAt = p; return rd }, fmt.Sprintf("fail@%d", p))
			c17Check(c, i, input, func() *chunkReader {
				rd := newReader(input)
				rd.failAt = p
				for q := 1; q < L; q++ {
					rd.cuts = append(rd.cuts, q)
				}
				return rd
			}, fmt.Sprintf("1-byte reads, fail@%d", p))
			c17Check(c, i, input, func() *chunkReader { rd := newReader(input); rd.failAt = p; rd.failWithData = true; return rd }, fmt.Sprintf("fail-with-data@%d, reported once", p))
			c.Count("failure_positions", 3)
		}
	}
	// ---- Part 2: larger inputs, sampled chunkings incl. buffer-size boundaries
	N2 := c.N(700, 20000)
	for k := 0; k < N2; k++ {
		i, run, stop := next()
		if stop {
			return
		}
		if !run {
			continue
		}
		r := c.Rng(i)
		input := c17Inputs(r, false)
		if r.Chance(1, 6) {
			// one big value crossing the 4096-byte default buffer and its doublings
			input = `{"big":"` + strings.Repeat("x", []int{4080, 4095, 4096, 4097, 8191, 8192, 16500}[r.Intn(7)]) + `"}` + input
		}
		c.Sample("large-input", 2, q(input))
		c.Distinct(gen.HashString(input), len(input) > 0)
		L := len(input)
		c17Check(c, i, input, func() *chunkReader { return newReader(input) }, "whole")
		one := func() *chunkReader {
			rd := newReader(input)
			for q := 1; q < L; q++ {
				rd.cuts = append(rd.cuts, q)
			}
			return rd
		}
		if L < 3000 {
			c17Check(c, i, input, one, "1-byte reads")
		}
		for t := 0; t < 6; t++ {
			var cuts []int
			for _, cpos := range []int{4095, 4096, 4097, 8192, 12288} {
				if cpos < L && r.Bool() {
					cuts = append(cuts, cpos)
				}
			}
			for m := r.Intn(6); m > 0 && L > 1; m-- {
				cuts = append(cuts, r.Range(1, L-1))
			}
			cuts = sortInts(cuts)
			empties := map[int]bool{}
			if r.Bool() && len(cuts) > 0 {
				empties[cuts[r.Intn(len(cuts))]] = true
			}
			eofData := r.Bool()
			fail := -1
			if r.Chance(1, 3) {
				fail = r.Intn(L + 1)
			}
			cs := append([]int(nil), cuts...)
			c17Check(c, i, input, func() *chunkReader {
				rd := newReader(input)
				rd.cuts = cs
				for k := range empties {
					rd.emptyAt[k] = true
				}
				rd.eofWithData = eofData
				rd.failAt = fail
				return rd
			}, fmt.Sprintf("cuts=%v empty=%v eofWithData=%v fail@%d", cs, empties, eofData, fail))
			c.Count("sampled_chunkings", 1)
		}
	}
	// ---- Part 3: stream encoder, every write failure position
	N3 := c.N(300, 10000)
	for k := 0; k < N3; k++ {
		i, run, stop := next()
		if stop {
			return
		}
		if !run {
			continue
		}
		r := c.Rng(i)
		c17Encode(c, i, r)
	}
}

func sortInts(a []int) []int {
	for i := 1; i < len(a); i++ {
		for j := i; j > 0 && a[j-1] > a[j]; j-- {
			a[j-1], a[j] = a[j], a[j-1]
		}
	}
	// dedupe
	out := a[:0]
	for i, x := range a {
		if i == 0 || x != a[i-1] {
			out = append(out, x)
		}
	}
	return out
}

// failWriter accepts at most `limit` bytes per Write (short writes report
// io.ErrShortWrite as the contract demands) and fails at the k-th Write.
type failWriter struct {
	buf    bytes.Buffer
	writes int
	failAt int // 1-based index of the failing Write; 0 = never
	short  int // >0: accept at most this many bytes per call
}

func (w *failWriter) Write(p []byte) (int, error) {
	w.writes++
	if w.failAt > 0 && w.writes == w.failAt {
		return 0, errBoom
	}
	if w.short > 0 && len(p) > w.short {
		w.buf.Write(p[:w.short])
		return w.short, io.ErrShortWrite
	}
	w.buf.Write(p)
	return len(p), nil
}

func c17Encode(c *Ctx, i int, r *gen.Rng) {
	t := r.Type(&c04PureTypes, 1)
	vo := gen.ValOpts{MaxLen: 4, NilChance: 5, BigStrings: r.Chance(1, 4)}
	v := r.Value(t, &vo, 0).Interface()
	newline := r.Bool()
	// ConfigStd sorts map keys: the expected bytes are then deterministic
	want, merr := sonic.ConfigStd.Marshal(v)
	if merr != nil {
		return
	}
	expected := string(want)
	if newline {
		expected += "\n"
	}
	mk := func(w io.Writer) interface{ Encode(interface{}) error } {
		if newline {
			return sonic.ConfigStd.NewEncoder(w)
		}
		e := encoder.NewStreamEncoder(w)
		e.Opts |= encoder.SortMapKeys | encoder.EscapeHTML | encoder.CompactMarshaler | encoder.ValidateString | encoder.NoEncoderNewline
		return e
	}
	c.Count("encoder_values", 1)
	c.Distinct(gen.HashString(expected), true)
	// no failure: bytes == Marshal (+ newline)
	w0 := &failWriter{}
	var err error
	if c.Guard(i, "stream Encode", func() { err = mk(w0).Encode(v) }) {
		return
	}
	if err != nil || w0.buf.String() != expected {
		c.Violate(i, "stream Encode", "bytes delivered to the Writer differ from Marshal (+newline)", map[string]interface{}{"want": q(expected), "got": q(w0.buf.String()), "err": errStr(err), "newline": newline})
		return
	}
	// every failure position
	for k := 1; k <= w0.writes; k++ {
		w := &failWriter{failAt: k}
		var e error
		if c.Guard(i, "stream Encode", func() { e = mk(w).Encode(v) }) {
			return
		}
		c.Count("writer_failure_positions", 1)
		if e != errBoom {
			c.Violate(i, "stream Encode", "a failing Write was not reported (or not unchanged)", map[string]interface{}{"failing_write": k, "of": w0.writes, "err": errStr(e), "newline": newline, "value": q(expected)})
		}
	}
	// short writes must surface as an error too
	ws := &failWriter{short: 1 + r.Intn(3)}
	var e error
	if c.Guard(i, "stream Encode", func() { e = mk(ws).Encode(v) }) {
		return
	}
	if len(expected) > 4 && e == nil {
		c.Violate(i, "stream Encode", "a short write (io.ErrShortWrite) was not reported", map[string]interface{}{"value": q(expected)})
	}
	// several values on one encoder: concatenation
	w2 := &failWriter{}
	enc := mk(w2)
	for k := 0; k < 3; k++ {
		if e := enc.Encode(v); e != nil {
			c.Violate(i, "stream Encode", "error on repeated Encode: "+e.Error(), nil)
			return
		}
	}
	if w2.buf.String() != expected+expected+expected {
		c.Violate(i, "stream Encode", "three Encodes do not deliver three times the bytes", map[string]interface{}{"want": q(expected), "got": q(w2.buf.String())})
	}
}
