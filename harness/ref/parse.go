package ref

import (
	"strings"
)

type Kind int

const (
	Null Kind = iota
	Bool
	Num
	Str
	Arr
	Obj
)

func (k Kind) String() string {
	return [...]string{"null", "bool", "num", "str", "arr", "obj"}[k]
}

// Value is a parsed JSON value with its span in the source. Objects keep
// order and duplicates.
type Value struct {
	Kind       Kind
	Start, End int
	B          bool
	Text       string   // number literal text / decoded string
	Elems      []*Value // array elements or object values
	Keys       []string // decoded object keys (parallel to Elems)
	KeyOK      []bool   // key literal decoded strictly
}

type parser struct {
	s       string
	i       int
	lenient bool // string literal = quote ... quote with backslash escaping any byte
	depth   int
	maxd    int
	err     string
}

// Parse parses exactly one JSON value surrounded by optional white space with
// encoding/json's grammar (strings: no raw control characters, valid escapes;
// invalid UTF-8 is tolerated as encoding/json.Valid does).
func Parse(s string) (*Value, bool) {
	p := &parser{s: s, maxd: 1 << 30}
	p.ws()
	v := p.value()
	if v == nil {
		return nil, false
	}
	p.ws()
	if p.i != len(s) {
		return nil, false
	}
	return v, true
}

// ParsePrefix parses one value starting at offset i (after white space) and
// returns it with the offset after it.
func ParsePrefix(s string, i int) (*Value, int, bool) {
	p := &parser{s: s, i: i, maxd: 1 << 30}
	p.ws()
	v := p.value()
	if v == nil {
		return nil, p.i, false
	}
	return v, p.i, true
}

// StructOK is the lower bound of property C02: the document is one value with
// balanced containers, correct separators, well-formed literals and numbers,
// and terminated strings, where a string literal is `"` … `"` with `\`
// escaping any single byte (string *contents* are not judged).
func StructOK(s string) bool {
	p := &parser{s: s, lenient: true, maxd: 1 << 30}
	p.ws()
	v := p.value()
	if v == nil {
		return false
	}
	p.ws()
	return p.i == len(s)
}

// MaxDepth returns the nesting depth of a document that StructOK accepts (0
// for scalars), counted without recursion.
func MaxDepth(s string) int {
	d, m := 0, 0
	in := false
	for i := 0; i < len(s); i++ {
		c := s[i]
		if in {
			if c == '\\' {
				i++
			} else if c == '"' {
				in = false
			}
			continue
		}
		switch c {
		case '"':
			in = true
		case '[', '{':
			d++
			if d > m {
				m = d
			}
		case ']', '}':
			d--
		}
	}
	return m
}

func (p *parser) ws() {
	for p.i < len(p.s) {
		switch p.s[p.i] {
		case ' ', '\t', '\n', '\r':
			p.i++
		default:
			return
		}
	}
}

func (p *parser) value() *Value {
	if p.i >= len(p.s) {
		return nil
	}
	st := p.i
	switch c := p.s[p.i]; {
	case c == '{':
		return p.object()
	case c == '[':
		return p.array()
	case c == '"':
		txt, ok, strict := p.str()
		if !ok {
			return nil
		}
		_ = strict
		return &Value{Kind: Str, Start: st, End: p.i, Text: txt}
	case c == 't':
		if strings.HasPrefix(p.s[p.i:], "true") {
			p.i += 4
			return &Value{Kind: Bool, Start: st, End: p.i, B: true}
		}
	case c == 'f':
		if strings.HasPrefix(p.s[p.i:], "false") {
			p.i += 5
			return &Value{Kind: Bool, Start: st, End: p.i}
		}
	case c == 'n':
		if strings.HasPrefix(p.s[p.i:], "null") {
			p.i += 4
			return &Value{Kind: Null, Start: st, End: p.i}
		}
	case c == '-' || (c >= '0' && c <= '9'):
		if p.number() {
			return &Value{Kind: Num, Start: st, End: p.i, Text: p.s[st:p.i]}
		}
	}
	return nil
}

func (p *parser) number() bool {
	s := p.s
	i := p.i
	if i < len(s) && s[i] == '-' {
		i++
	}
	if i >= len(s) {
		return false
	}
	if s[i] == '0' {
		i++
	} else if s[i] >= '1' && s[i] <= '9' {
		for i < len(s) && s[i] >= '0' && s[i] <= '9' {
			i++
		}
	} else {
		return false
	}
	if i < len(s) && s[i] == '.' {
		i++
		n := 0
		for i < len(s) && s[i] >= '0' && s[i] <= '9' {
			i++
			n++
		}
		if n == 0 {
			return false
		}
	}
	if i < len(s) && (s[i] == 'e' || s[i] == 'E') {
		i++
		if i < len(s) && (s[i] == '+' || s[i] == '-') {
			i++
		}
		n := 0
		for i < len(s) && s[i] >= '0' && s[i] <= '9' {
			i++
			n++
		}
		if n == 0 {
			return false
		}
	}
	p.i = i
	return true
}

// str scans a string literal at p.i. Returns decoded text (strict mode).
func (p *parser) str() (string, bool, bool) {
	s := p.s
	i := p.i + 1
	for i < len(s) {
		c := s[i]
		if c == '"' {
			body := s[p.i+1 : i]
			p.i = i + 1
			if p.lenient {
				return body, true, false
			}
			txt, ok := Unquote(body, true)
			if !ok {
				return "", false, false
			}
			return string(CorrectUTF8([]byte(txt), "�")), true, true
		}
		if c == '\\' {
			i += 2
			continue
		}
		if c < 0x20 && !p.lenient {
			return "", false, false
		}
		i++
	}
	return "", false, false
}

func (p *parser) array() *Value {
	v := &Value{Kind: Arr, Start: p.i}
	p.depth++
	defer func() { p.depth-- }()
	if p.depth > p.maxd {
		return nil
	}
	p.i++
	p.ws()
	if p.i < len(p.s) && p.s[p.i] == ']' {
		p.i++
		v.End = p.i
		return v
	}
	for {
		p.ws()
		e := p.value()
		if e == nil {
			return nil
		}
		v.Elems = append(v.Elems, e)
		p.ws()
		if p.i >= len(p.s) {
			return nil
		}
		if p.s[p.i] == ',' {
			p.i++
			continue
		}
		if p.s[p.i] == ']' {
			p.i++
			v.End = p.i
			return v
		}
		return nil
	}
}

func (p *parser) object() *Value {
	v := &Value{Kind: Obj, Start: p.i}
	p.depth++
	defer func() { p.depth-- }()
	if p.depth > p.maxd {
		return nil
	}
	p.i++
	p.ws()
	if p.i < len(p.s) && p.s[p.i] == '}' {
		p.i++
		v.End = p.i
		return v
	}
	for {
		p.ws()
		if p.i >= len(p.s) || p.s[p.i] != '"' {
			return nil
		}
		k, ok, _ := p.str()
		if !ok {
			return nil
		}
		p.ws()
		if p.i >= len(p.s) || p.s[p.i] != ':' {
			return nil
		}
		p.i++
		p.ws()
		e := p.value()
		if e == nil {
			return nil
		}
		v.Keys = append(v.Keys, k)
		v.Elems = append(v.Elems, e)
		p.ws()
		if p.i >= len(p.s) {
			return nil
		}
		if p.s[p.i] == ',' {
			p.i++
			continue
		}
		if p.s[p.i] == '}' {
			p.i++
			v.End = p.i
			return v
		}
		return nil
	}
}

// Tokens flattens a value into a token stream for C03-style comparison:
// punctuation as itself, numbers as "#<text>", strings as "$<decoded>",
// literals as their text.
func (v *Value) Tokens(out []string) []string {
	switch v.Kind {
	case Null:
		return append(out, "null")
	case Bool:
		if v.B {
			return append(out, "true")
		}
		return append(out, "false")
	case Num:
		return append(out, "#"+v.Text)
	case Str:
		return append(out, "$"+v.Text)
	case Arr:
		out = append(out, "[")
		for _, e := range v.Elems {
			out = e.Tokens(out)
		}
		return append(out, "]")
	case Obj:
		out = append(out, "{")
		for i, e := range v.Elems {
			out = append(out, "$"+v.Keys[i], ":")
			out = e.Tokens(out)
		}
		return append(out, "}")
	}
	return out
}

// Lookup follows a path of string keys and int indexes with first-occurrence
// semantics for duplicate keys.
func (v *Value) Lookup(path []interface{}) *Value {
	cur := v
	for _, p := range path {
		switch x := p.(type) {
		case string:
			if cur.Kind != Obj {
				return nil
			}
			var nx *Value
			for i, k := range cur.Keys {
				if k == x {
					nx = cur.Elems[i]
					break
				}
			}
			if nx == nil {
				return nil
			}
			cur = nx
		case int:
			if cur.Kind != Arr || x < 0 || x >= len(cur.Elems) {
				return nil
			}
			cur = cur.Elems[x]
		}
	}
	return cur
}

// UnterminatedTail reports whether s ends inside a string literal that is never
// closed, and if so the offset of its opening quote and whether the input ends
// in a dangling backslash.
func UnterminatedTail(s string) (open int, dangling bool, ok bool) {
	in := false
	for i := 0; i < len(s); i++ {
		c := s[i]
		if in {
			if c == '\\' {
				if i+1 >= len(s) {
					return open, true, true
				}
				i++
			} else if c == '"' {
				in = false
			}
			continue
		}
		if c == '"' {
			in = true
			open = i
		}
	}
	return open, false, in
}

// FirstError returns the offset at which the lenient (StructOK) parser gives
// up: the start of the offending token, len(s) for a premature end, the
// position of the first trailing non-space byte, or -1 for a well-formed
// document.
func FirstError(s string) int {
	p := &parser{s: s, lenient: true, maxd: 1 << 30}
	p.ws()
	v := p.value()
	if v == nil {
		return p.i
	}
	p.ws()
	if p.i != len(s) {
		return p.i
	}
	return -1
}
