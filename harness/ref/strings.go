// Package ref holds reference oracles that never call sonic.
package ref

import (
	"unicode/utf16"
	"unicode/utf8"
)

// Unquote decodes the body of a JSON string literal (without the surrounding
// quotes) the way encoding/json does for escapes: surrogate pairs are combined,
// lone surrogates become U+FFFD when replace is set and are an error otherwise,
// malformed escapes are errors, every other byte is copied unchanged.
func Unquote(s string, replace bool) (string, bool) {
	out := make([]byte, 0, len(s))
	for i := 0; i < len(s); {
		c := s[i]
		if c != '\\' {
			out = append(out, c)
			i++
			continue
		}
		i++
		if i >= len(s) {
			return "", false
		}
		switch s[i] {
		case '"', '\\', '/':
			out = append(out, s[i])
			i++
		case 'b':
			out = append(out, '\b')
			i++
		case 'f':
			out = append(out, '\f')
			i++
		case 'n':
			out = append(out, '\n')
			i++
		case 'r':
			out = append(out, '\r')
			i++
		case 't':
			out = append(out, '\t')
			i++
		case 'u':
			r, ok := hex4(s, i+1)
			if !ok {
				return "", false
			}
			i += 5
			if utf16.IsSurrogate(r) {
				if r < 0xdc00 && i+6 <= len(s) && s[i] == '\\' && s[i+1] == 'u' {
					if r2, ok2 := hex4(s, i+2); ok2 {
						if d := utf16.DecodeRune(r, r2); d != utf8.RuneError {
							i += 6
							out = appendRune(out, d)
							continue
						}
					}
				}
				if !replace {
					return "", false
				}
				r = utf8.RuneError
			}
			out = appendRune(out, r)
		default:
			return "", false
		}
	}
	return string(out), true
}

func appendRune(b []byte, r rune) []byte {
	var t [4]byte
	n := utf8.EncodeRune(t[:], r)
	return append(b, t[:n]...)
}

func hex4(s string, i int) (rune, bool) {
	if i+4 > len(s) {
		return 0, false
	}
	var r rune
	for k := 0; k < 4; k++ {
		c := s[i+k]
		switch {
		case '0' <= c && c <= '9':
			c -= '0'
		case 'a' <= c && c <= 'f':
			c = c - 'a' + 10
		case 'A' <= c && c <= 'F':
			c = c - 'A' + 10
		default:
			return 0, false
		}
		r = r*16 + rune(c)
	}
	return r, true
}

// CorrectUTF8 replaces every byte that is not part of a valid UTF-8 encoding
// with repl (byte-wise, as `for range` over a string does).
func CorrectUTF8(src []byte, repl string) []byte {
	out := make([]byte, 0, len(src))
	for i := 0; i < len(src); {
		r, n := utf8.DecodeRune(src[i:])
		if r == utf8.RuneError && n == 1 {
			out = append(out, repl...)
			i++
			continue
		}
		out = append(out, src[i:i+n]...)
		i += n
	}
	return out
}

// UnquoteLiteral decodes a full literal including quotes with the strictness
// used to *validate sonic's output*: the body must not contain raw control
// characters or raw quotes.
func UnquoteLiteral(lit string) (string, bool) {
	if len(lit) < 2 || lit[0] != '"' || lit[len(lit)-1] != '"' {
		return "", false
	}
	body := lit[1 : len(lit)-1]
	for i := 0; i < len(body); i++ {
		if body[i] < 0x20 {
			return "", false
		}
		if body[i] == '\\' {
			i++
			continue
		}
		if body[i] == '"' {
			return "", false
		}
	}
	return Unquote(body, true)
}
