// Package dup (variant a): prints as dup.T exactly like variant b.
package dup

type T struct {
	A int    `json:"a"`
	B string `json:"b"`
}

type Inner struct{ X, Y int }

type Outer struct {
	In  Inner
	Arr []Inner
}
