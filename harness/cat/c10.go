package cat

import (
	"encoding/hex"
	"encoding/json"
	"errors"
	"reflect"
	"strconv"
	"strings"
)

// Types for the runtime-cooperation check (C10): every (un)marshaling method
// calls Stress, which the worker points at an action that makes the Go runtime
// collect, grow/move/shrink the stack or walk it while the frames of sonic's
// generated code are live below the callback.

// Stress is called from inside the callbacks. where: a short tag of the call site.
var Stress = func(where string) {}

// GKey: struct map key through encoding.TextMarshaler/TextUnmarshaler.
type GKey struct{ A, B int }

func (k GKey) MarshalText() ([]byte, error) {
	Stress("GKey.MarshalText")
	return []byte(strconv.Itoa(k.A) + ":" + strconv.Itoa(k.B)), nil
}

func (k *GKey) UnmarshalText(b []byte) error {
	s := string(b) // the text is copied before anything can move or free it
	Stress("GKey.UnmarshalText")
	i := strings.IndexByte(s, ':')
	if i < 0 {
		return errors.New("GKey: no colon")
	}
	a, e1 := strconv.Atoi(s[:i])
	c, e2 := strconv.Atoi(s[i+1:])
	if e1 != nil || e2 != nil {
		return errors.New("GKey: bad numbers")
	}
	k.A, k.B = a, c
	// from here on this method does not use its receiver: while the second action runs, the
	// only reference to a freshly allocated key is whatever the caller (generated code) holds
	Stress("GKey.UnmarshalText/done")
	return nil
}

// GKeyS: string-kinded key with text methods.
type GKeyS string

func (k GKeyS) MarshalText() ([]byte, error) {
	Stress("GKeyS.MarshalText")
	return []byte("s/" + hex.EncodeToString([]byte(k))), nil
}

func (k *GKeyS) UnmarshalText(b []byte) error {
	s := string(b)
	Stress("GKeyS.UnmarshalText")
	h, err := hex.DecodeString(strings.TrimPrefix(s, "s/"))
	if err != nil {
		return err
	}
	*k = GKeyS(h)
	Stress("GKeyS.UnmarshalText/done")
	return nil
}

// GKeyBig: a key in another allocation size class, holding a pointer.
type GKeyBig struct {
	Pad [5]int64
	S   string
}

func (k GKeyBig) MarshalText() ([]byte, error) {
	Stress("GKeyBig.MarshalText")
	var sb strings.Builder
	for _, p := range k.Pad {
		sb.WriteString(strconv.FormatInt(p, 10))
		sb.WriteByte('|')
	}
	// (hex: the text of distinct keys stays distinct whatever the encoder does to invalid UTF-8)
	sb.WriteString(hex.EncodeToString([]byte(k.S)))
	return []byte(sb.String()), nil
}

func (k *GKeyBig) UnmarshalText(b []byte) error {
	s := string(b)
	Stress("GKeyBig.UnmarshalText")
	parts := strings.Split(s, "|")
	if len(parts) != 6 {
		return errors.New("GKeyBig: want 6 parts")
	}
	for i := 0; i < 5; i++ {
		n, err := strconv.ParseInt(parts[i], 10, 64)
		if err != nil {
			return err
		}
		k.Pad[i] = n
	}
	h, err := hex.DecodeString(parts[5])
	if err != nil {
		return err
	}
	k.S = string(h)
	Stress("GKeyBig.UnmarshalText/done")
	return nil
}

// GJ: json.Marshaler/Unmarshaler, value receiver for marshaling.
type GJ struct {
	N int
	S string
}

func (g GJ) MarshalJSON() ([]byte, error) {
	Stress("GJ.MarshalJSON")
	return []byte(`{"n":` + strconv.Itoa(g.N) + `,"s":` + strconv.Quote(asciiOnly(g.S)) + `}`), nil
}

func (g *GJ) UnmarshalJSON(b []byte) error {
	own := append([]byte(nil), b...)
	Stress("GJ.UnmarshalJSON")
	var x struct {
		N int    `json:"n"`
		S string `json:"s"`
	}
	if err := json.Unmarshal(own, &x); err != nil {
		return err
	}
	g.N, g.S = x.N, x.S
	Stress("GJ.UnmarshalJSON/done")
	return nil
}

// GJP: pointer receivers only, holds a pointer.
type GJP struct {
	P *string
	L []int
}

func (g *GJP) MarshalJSON() ([]byte, error) {
	Stress("GJP.MarshalJSON")
	s := "nil"
	if g.P != nil {
		s = asciiOnly(*g.P)
	}
	return []byte(`[` + strconv.Quote(s) + `,` + strconv.Itoa(len(g.L)) + `]`), nil
}

func (g *GJP) UnmarshalJSON(b []byte) error {
	own := append([]byte(nil), b...)
	Stress("GJP.UnmarshalJSON")
	var x []interface{}
	if err := json.Unmarshal(own, &x); err != nil {
		return err
	}
	if len(x) == 2 {
		if s, ok := x[0].(string); ok {
			g.P = &s
		}
		if n, ok := x[1].(float64); ok && n >= 0 && n < 100 {
			g.L = make([]int, int(n))
		}
	}
	Stress("GJP.UnmarshalJSON/done")
	return nil
}

// GT: encoding.TextMarshaler/TextUnmarshaler as a value (not a key).
type GT struct{ S string }

func (g GT) MarshalText() ([]byte, error) {
	Stress("GT.MarshalText")
	return []byte("t:" + asciiOnly(g.S)), nil
}

func (g *GT) UnmarshalText(b []byte) error {
	s := string(b)
	Stress("GT.UnmarshalText")
	g.S = strings.TrimPrefix(s, "t:")
	Stress("GT.UnmarshalText/done")
	return nil
}

func asciiOnly(s string) string {
	b := []byte(s)
	for i := range b {
		if b[i] < 0x20 || b[i] > 0x7e || b[i] == '"' || b[i] == '\\' || b[i] == '<' || b[i] == '>' || b[i] == '&' {
			b[i] = '_'
		}
	}
	return string(b)
}

// GAll mixes the callback types with pointer-carrying fields of every shape,
// so that the decoder stores pointers (write barriers) between callbacks.
type GAll struct {
	K   map[GKey]GJ       `json:"k"`
	KS  map[GKeyS]*string `json:"ks"`
	KB  map[GKeyBig][]int `json:"kb"`
	L   []GJ              `json:"l"`
	LP  []*GJP            `json:"lp"`
	P   *GJ               `json:"p"`
	T   GT                `json:"t"`
	MT  map[string]GT     `json:"mt"`
	I   interface{}       `json:"i"`
	Str string            `json:"str"`
	Ps  []*string         `json:"ps"`
	Num json.Number       `json:"num"`
	Raw json.RawMessage   `json:"raw"`
	In  *GAll             `json:"in,omitempty"`
	Z   GZero             `json:"z"`
}

// GZero carries omitzero fields (the encoder consults per-field metadata at run time).
type GZero struct {
	A int            `json:"a,omitzero"`
	B string         `json:"b,omitzero"`
	C *int           `json:"c,omitzero"`
	D []string       `json:"d,omitzero"`
	E GJ             `json:"e,omitzero"`
	F map[string]int `json:"f,omitzero"`
	G float64        `json:"g"`
}

type GZero2 struct {
	X GZero   `json:"x,omitzero"`
	Y []GZero `json:"y"`
	Z int     `json:"z,omitzero"`
}

// Stressful lists the C10 types.
var Stressful = []reflect.Type{
	reflect.TypeOf(map[GKey]int{}), reflect.TypeOf(map[GKey]GJ{}), reflect.TypeOf(map[GKeyS]string{}), reflect.TypeOf(map[GKeyBig]*GJ{}),
	reflect.TypeOf(map[GKey][]string{}), reflect.TypeOf(map[GKeyBig]map[GKeyS]GT{}),
	reflect.TypeOf([]GJ{}), reflect.TypeOf([]*GJP{}), reflect.TypeOf(map[string]GT{}), reflect.TypeOf([]GT{}),
	reflect.TypeOf(GAll{}), reflect.TypeOf([]GAll{}), reflect.TypeOf(GZero{}), reflect.TypeOf(GZero2{}), reflect.TypeOf([]GZero2{}),
	reflect.TypeOf(map[string]*GAll{}),
}

// Tail arrays: a fixed-size array with pointers as the last part of a heap object
// that fills its malloc size class exactly (objects above 512 bytes carry a type
// header, so "one past the end of the array" is the header of the next slot).
func tailArrayTypes() []reflect.Type {
	var ts []reflect.Type
	i64 := reflect.TypeOf(int64(0))
	for _, class := range []int{576, 640, 704, 768, 896, 1024, 1152, 1280, 2048} {
		for _, tail := range []reflect.Type{reflect.TypeOf([3]*int{}), reflect.TypeOf([2]string{}), reflect.TypeOf([1]*GJ{}), reflect.TypeOf([2]map[string]int{})} {
			k := (class - 8 - int(tail.Size())) / 8
			ts = append(ts, reflect.StructOf([]reflect.StructField{
				{Name: "Pad", Type: reflect.ArrayOf(k, i64), Tag: `json:"-"`},
				{Name: "A", Type: tail, Tag: `json:"a"`},
			}))
		}
		// the array itself is the object
		ts = append(ts, reflect.ArrayOf((class-8)/8, reflect.TypeOf((*int8)(nil))))
	}
	return ts
}

func init() {
	Stressful = append(Stressful, tailArrayTypes()...)
}
