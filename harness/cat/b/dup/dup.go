// Package dup (variant b): prints as dup.T exactly like variant a, different layout.
package dup

type T struct {
	B string  `json:"b"`
	C float64 `json:"c"`
	A int     `json:"a"`
}

type Inner struct {
	Y string
	X []int
}

type Outer struct {
	In  Inner
	Arr []Inner
}
