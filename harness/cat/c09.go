package cat

import "reflect"

// Types for the history-independence check (C09).

// PVInner holds values whose marshaling methods have pointer receivers only:
// how they are encoded depends on whether the enclosing value is addressable.
// The types below keep such fields at nesting depths that the default compile
// options always inline, where the unchanged code takes the decision from the
// enclosing value of the very call (see known finding B35 for what happens
// once a sub-program is compiled out of line).
type PVInner struct {
	J JSONP  `json:"j"`
	T TextP  `json:"t"`
	E int    `json:"e,omitempty"`
	S string `json:"s,omitempty"`
}

type PVOuter struct {
	In  PVInner            `json:"in"`
	Arr []PVInner          `json:"arr"`
	P   *PVInner           `json:"p"`
	M   map[string]PVInner `json:"m"`
	N   int                `json:"n"`
}

type PVTop struct {
	A PVInner `json:"a"`
	B struct {
		X JSONP `json:"x"`
		Y int   `json:"y,omitempty"`
	} `json:"b"`
}

// PVSafe lists the types of that group.
var PVSafe = []reflect.Type{reflect.TypeOf(PVInner{}), reflect.TypeOf(PVOuter{}), reflect.TypeOf(PVTop{})}

// LocalT1 and LocalT2 return two distinct function-local types that both print
// as "cat.T" and have the same package path and name.
func LocalT1() reflect.Type {
	type T struct {
		A int    `json:"a"`
		B string `json:"b"`
	}
	return reflect.TypeOf(T{})
}

func LocalT2() reflect.Type {
	type T struct {
		B []string `json:"b"`
		A float64  `json:"a"`
		C *T       `json:"c"`
	}
	return reflect.TypeOf(T{})
}

func LocalT3() reflect.Type {
	type T struct {
		A uint8
		B map[string]int
	}
	type Wrap struct {
		X T
		Y []T
	}
	return reflect.TypeOf(Wrap{})
}

func LocalT4() reflect.Type {
	type T struct {
		B bool
		A string
	}
	type Wrap struct {
		X T
		Y []T
	}
	return reflect.TypeOf(Wrap{})
}

// Omit types carry every omitempty kind; sensitive to compile options of
// whatever compiled them first if programs were shared across contexts.
type OmitAll struct {
	I  int               `json:"i,omitempty"`
	S  string            `json:"s,omitempty"`
	F  float64           `json:"f,omitempty"`
	B  bool              `json:"b,omitempty"`
	P  *int              `json:"p,omitempty"`
	L  []int             `json:"l,omitempty"`
	M  map[string]int    `json:"m,omitempty"`
	X  interface{}       `json:"x,omitempty"`
	In *OmitAll          `json:"in,omitempty"`
	Ls []OmitAll         `json:"ls,omitempty"`
	Mp map[string]OmitAll `json:"mp,omitempty"`
}

type OmitWrap struct {
	O  OmitAll  `json:"o"`
	Os []OmitAll `json:"os"`
	D  D1       `json:"d"`
}

// OmitFlat: every non-nilable omitempty kind, no recursion, no pointers or slices of structs:
// the default compile options inline it wherever it is a field (it never gets a program of
// its own unless it is encoded at the top level).
type OmitFlat struct {
	I int     `json:"i,omitempty"`
	S string  `json:"s,omitempty"`
	F float64 `json:"f,omitempty"`
	B bool    `json:"b,omitempty"`
	A [2]int  `json:"a,omitempty"`
	U uint8   `json:"u,omitempty"`
}

type OmitHolder struct {
	O OmitFlat            `json:"o"`
	M map[string]OmitFlat `json:"m"`
	N int                 `json:"n"`
}

// OmitOther only exists to be pretouched: it inlines the same struct types as the probes do.
type OmitOther struct {
	X OmitFlat `json:"x"`
	Y PVInner  `json:"y"`
	Z Base     `json:"z"`
}
