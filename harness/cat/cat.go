// Package cat is the hand-written catalogue of named types that
// reflect.StructOf cannot build: types with (un)marshaling methods on value
// and pointer receivers, recursive types, embedded types with methods,
// defined pointer/slice/map types. All methods are pure (no side effects
// besides the receiver) so that one value can be given to both codecs.
package cat

import (
	"encoding/base64"
	"encoding/json"
	"errors"
	"reflect"
	"strconv"
	"strings"
)

// --- plain named scalars -----------------------------------------------------

type NamedInt int
type NamedUint8 uint8
type NamedString string
type NamedBool bool
type NamedFloat float64
type NamedBytes []byte
type NamedInt8Slice []int8
type NamedUint8Slice []NamedUint8
type NamedMap map[string]int
type NamedSlice []string
type NamedIface interface{}

// --- TextMarshaler keys and values -------------------------------------------

// TextV implements encoding.TextMarshaler/TextUnmarshaler on value/pointer.
type TextV struct{ A, B int }

func (t TextV) MarshalText() ([]byte, error) {
	return []byte(strconv.Itoa(t.A) + ":" + strconv.Itoa(t.B)), nil
}
func (t *TextV) UnmarshalText(b []byte) error {
	p := strings.SplitN(string(b), ":", 2)
	if len(p) != 2 {
		return errors.New("TextV: bad text")
	}
	var err error
	if t.A, err = strconv.Atoi(p[0]); err != nil {
		return err
	}
	t.B, err = strconv.Atoi(p[1])
	return err
}

// TextP has pointer receivers for both directions.
type TextP struct{ S string }

func (t *TextP) MarshalText() ([]byte, error) { return []byte("<" + t.S + ">"), nil }
func (t *TextP) UnmarshalText(b []byte) error {
	s := string(b)
	if !strings.HasPrefix(s, "<") || !strings.HasSuffix(s, ">") || len(s) < 2 {
		return errors.New("TextP: bad text")
	}
	t.S = s[1 : len(s)-1]
	return nil
}

// TextKey is a string-kinded key with text methods (html-sensitive output).
type TextKey string

func (k TextKey) MarshalText() ([]byte, error) { return []byte("k<" + string(k) + ">&"), nil }
func (k *TextKey) UnmarshalText(b []byte) error {
	s := string(b)
	if !strings.HasPrefix(s, "k<") || !strings.HasSuffix(s, ">&") {
		return errors.New("TextKey: bad text")
	}
	*k = TextKey(s[2 : len(s)-2])
	return nil
}

// IntKeyText is an int-kinded key with text methods (methods win over kind).
type IntKeyText int

func (k IntKeyText) MarshalText() ([]byte, error) { return []byte("#" + strconv.Itoa(int(k))), nil }
func (k *IntKeyText) UnmarshalText(b []byte) error {
	if len(b) == 0 || b[0] != '#' {
		return errors.New("IntKeyText: bad text")
	}
	n, err := strconv.Atoi(string(b[1:]))
	*k = IntKeyText(n)
	return err
}

// --- JSON marshalers -----------------------------------------------------------

// JSONV: value-receiver Marshaler, pointer-receiver Unmarshaler.
type JSONV struct{ N int }

func (j JSONV) MarshalJSON() ([]byte, error) {
	return []byte(`{"n": ` + strconv.Itoa(j.N) + ` , "tag":"<v>"}`), nil // deliberately non-compact
}
func (j *JSONV) UnmarshalJSON(b []byte) error {
	var x struct{ N int }
	if err := json.Unmarshal(b, &x); err != nil {
		return err
	}
	j.N = x.N + 1000
	return nil
}

// JSONP: pointer receivers only.
type JSONP struct{ S string }

func (j *JSONP) MarshalJSON() ([]byte, error) {
	if j == nil {
		return []byte(`"nilptr"`), nil
	}
	return json.Marshal("P:" + j.S)
}
func (j *JSONP) UnmarshalJSON(b []byte) error {
	j.S = "raw:" + string(b)
	return nil
}

// JSONErr fails in both directions.
type JSONErr struct{ X int }

func (j JSONErr) MarshalJSON() ([]byte, error) { return nil, errors.New("JSONErr: marshal refused") }
func (j *JSONErr) UnmarshalJSON(b []byte) error {
	return errors.New("JSONErr: unmarshal refused")
}

// JSONBad returns invalid JSON text.
type JSONBad struct{ Kind int }

func (j JSONBad) MarshalJSON() ([]byte, error) {
	switch j.Kind % 4 {
	case 0:
		return []byte(`{"a":}`), nil
	case 1:
		return []byte(`[1,2`), nil
	case 2:
		return []byte(``), nil
	}
	return []byte(`1 2`), nil
}

// JSONNum is a numeric kind with a Marshaler (methods beat kinds, also as map value).
type JSONNum int

func (j JSONNum) MarshalJSON() ([]byte, error) { return []byte(`"num` + strconv.Itoa(int(j)) + `"`), nil }
func (j *JSONNum) UnmarshalJSON(b []byte) error {
	s := strings.Trim(string(b), `"`)
	s = strings.TrimPrefix(s, "num")
	n, err := strconv.Atoi(s)
	*j = JSONNum(n)
	return err
}

// Both has both JSON and Text methods; JSON must win.
type Both struct{ V int }

func (b Both) MarshalJSON() ([]byte, error)  { return []byte(`{"json":` + strconv.Itoa(b.V) + `}`), nil }
func (b Both) MarshalText() ([]byte, error)  { return []byte("text" + strconv.Itoa(b.V)), nil }
func (b *Both) UnmarshalJSON(x []byte) error { b.V = len(x); return nil }
func (b *Both) UnmarshalText(x []byte) error { b.V = -len(x); return nil }

// Base64ish: a []byte kind with a TextMarshaler.
type Hex []byte

func (h Hex) MarshalText() ([]byte, error) {
	return []byte(base64.RawURLEncoding.EncodeToString(h)), nil
}
func (h *Hex) UnmarshalText(b []byte) error {
	d, err := base64.RawURLEncoding.DecodeString(string(b))
	*h = d
	return err
}

// --- recursive and composite types -------------------------------------------

type Tree struct {
	Val      int              `json:"val"`
	Name     string           `json:"name,omitempty"`
	Kids     []*Tree          `json:"kids,omitempty"`
	Left     *Tree            `json:"left"`
	ByName   map[string]*Tree `json:"by_name,omitempty"`
	Any      interface{}      `json:"any,omitempty"`
	Self     []Tree           `json:"self,omitempty"`
	unexport int
}

type List struct {
	V    float64 `json:"v"`
	Next *List   `json:"next,omitempty"`
}

// Mutual recursion.
type Ping struct {
	N    int   `json:"n"`
	Pong *Pong `json:"pong,omitempty"`
}
type Pong struct {
	S    string  `json:"s"`
	Ping []*Ping `json:"ping,omitempty"`
}

// --- embedding -----------------------------------------------------------------

type Base struct {
	ID   int    `json:"id"`
	Name string `json:"name"`
	Dup  string `json:"dup"`
}

type Mid struct {
	Base
	Level int    `json:"level"`
	Dup   string `json:"dup"` // shadows Base.Dup (shallower wins)
}

type lower struct {
	Hidden int    `json:"hidden"`
	Shown  string `json:"shown"`
}

type Embeds struct {
	Mid
	*List
	lower        // embedded unexported struct: its exported fields are promoted
	NamedInt     // embedded non-struct: field named NamedInt
	Extra    int `json:"extra,omitempty"`
}

// EmbedPtr embeds a pointer to an exported struct.
type EmbedPtr struct {
	*Base
	Q int `json:"q"`
}

// Conflict: two embedded structs at the same depth with the same field name =>
// the field is dropped by encoding/json.
type CA struct{ X int }
type CB struct{ X int }
type Conflict struct {
	CA
	CB
	Y int
}

// TaggedConflict: same depth, one tagged => tagged wins.
type TA struct {
	X int `json:"x"`
}
type TB struct{ X int }
type TaggedConflict struct {
	TA
	TB
}

// EmbMarshaler embeds a type with MarshalJSON: the method is promoted and the
// whole struct marshals through it.
type EmbMarshaler struct {
	JSONV
	Other int `json:"other"`
}

// --- tags ------------------------------------------------------------------------

type Tags struct {
	A  int               `json:"a"`
	B  int               `json:"b,omitempty"`
	C  string            `json:"c,string"`
	D  int               `json:"d,string"`
	E  float64           `json:"e,string,omitempty"`
	F  bool              `json:"f,string"`
	G  *int              `json:"g,string"`
	H  string            `json:"-"`
	I  string            `json:"-,"`
	J  string            `json:",omitempty"`
	K  []int             `json:"k,omitempty"`
	L  map[string]int    `json:"l,omitempty"`
	M  *Base             `json:"m,omitempty"`
	N  interface{}       `json:"n,omitempty"`
	O  [2]int            `json:"o,omitempty"`
	P  [0]int            `json:"p,omitempty"`
	Q  struct{}          `json:"q,omitempty"`
	R  json.Number       `json:"r"`
	S  json.RawMessage   `json:"s"`
	T  *json.RawMessage  `json:"t,omitempty"`
	U  uint8             `json:"u,string"`
	V  NamedString       `json:"v,string"`
	W  string            `json:"weird name!"`
	X  string            `json:"x\"q"` // invalid tag name: field name is used
	Y  int               `json:"é"`
	Z  int               `json:"K"`
	Zk int               `json:"k2"`
	ſ  int               // non-ASCII unexported
	Aa map[NamedInt]Base `json:"aa,omitempty"`
}

// CaseFold has keys that only differ by case / fold specially.
type CaseFold struct {
	Key  int `json:"key"`
	KEY  int `json:"KEY"`
	Kelv int `json:"kelvin"`
	S    int `json:"ſ"`
	ID   int
	Id   int
}

// Big crosses the 50-field cut-over of the field hash map.
type Big struct {
	F00, F01, F02, F03, F04, F05, F06, F07, F08, F09 int
	F10, F11, F12, F13, F14, F15, F16, F17, F18, F19 string
	F20, F21, F22, F23, F24, F25, F26, F27, F28, F29 *int
	F30, F31, F32, F33, F34, F35, F36, F37, F38, F39 float64
	F40, F41, F42, F43, F44, F45, F46, F47, F48, F49 bool
	F50, F51, F52, F53, F54                         []int
	Ffoo, FFOO, ffoo                                int
}

// Deep nests named structs beyond the default inline depth.
type D1 struct {
	A int
	N D2
}
type D2 struct {
	B string
	N D3
}
type D3 struct {
	C []int
	N D4
}
type D4 struct {
	D map[string]int
	N D5
}
type D5 struct {
	E *int
	N D6
}
type D6 struct {
	F float32
	N *D1
}

// Ifaces carries non-empty interfaces.
type Stringer interface{ String() string }
type StrImpl struct{ S string }

func (s *StrImpl) String() string { return s.S }

type Ifaces struct {
	E  interface{}
	St Stringer
	M  json.Marshaler
	Ep *interface{}
}

// DefPtr: defined pointer type.
type DefPtr *Base

type HasDefPtr struct {
	P DefPtr
	Q *DefPtr
}

// Unsupported kinds.
type Unsup struct {
	A int
	C chan int `json:"c,omitempty"`
	F func()   `json:"f,omitempty"`
}
type UnsupHard struct {
	A int
	C complex128
}

// MapKeys exercises every key kind at once.
type MapKeys struct {
	S   map[string]int
	NS  map[NamedString]int
	I   map[int]string
	I8  map[int8]string
	U64 map[uint64]string
	NI  map[NamedInt]bool
	T   map[TextV]int
	TK  map[TextKey]int
	IK  map[IntKeyText]int
	N   map[json.Number]int
}

// PtrMarsh reaches the pointer-receiver marshalers only through pointers, where
// the method set does not depend on addressability.
type PtrMarsh struct {
	P *JSONP
	T *TextP
	L []*JSONP
	M map[string]*TextP
	I interface{}
}

// PtrKeyMap can be encoded by encoding/json but not decoded (pointer keys).
type PtrKeyMap struct {
	PT map[*TextP]int
}

// Pointer-shaped marshaler types: a struct with a single pointer field and a
// one-element array of pointers are stored directly in an interface word, like
// a pointer; their value-receiver methods must get the stored pointer, not the
// address of the slot that holds it.
type PShapeJ struct{ P *Base }

func (x PShapeJ) MarshalJSON() ([]byte, error) {
	if x.P == nil {
		return []byte(`{"pshape":null}`), nil
	}
	return []byte(`{"pshape":` + strconv.Itoa(x.P.ID) + `}`), nil
}

type PShapeT struct{ P *NamedInt }

func (x PShapeT) MarshalText() ([]byte, error) {
	if x.P == nil {
		return []byte("nil"), nil
	}
	return []byte("t" + strconv.Itoa(int(*x.P))), nil
}

type PShapeArr [1]*Base

func (x PShapeArr) MarshalJSON() ([]byte, error) {
	if x[0] == nil {
		return []byte(`[null]`), nil
	}
	return []byte(`[` + strconv.Itoa(x[0].ID) + `]`), nil
}

// PShapes reaches them by value through every kind of container (map values and
// keys, interfaces, slices, arrays and fields are different compile paths).
type PShapes struct {
	V  PShapeJ
	T  PShapeT
	A  PShapeArr
	MV map[string]PShapeJ
	MT map[string]PShapeT
	I  interface{}
	L  []PShapeJ
	LT [2]PShapeT
	LA []PShapeArr
}

// RecP: recursive types that carry pointer-receiver marshalers. Whether encoding/json uses the
// methods depends on the addressability of each occurrence: reached through a pointer or a
// slice it is addressable, as a map element or when the outer value was passed by value it is not.
type RecP struct {
	V    JSONP           `json:"v"`
	T    TextP           `json:"t"`
	Next *RecP           `json:"next,omitempty"`
	Kids []RecP          `json:"kids,omitempty"`
	Sub  map[string]RecP `json:"sub,omitempty"`
}

// RecM recurses through a map only.
type RecM struct {
	V   JSONP           `json:"v"`
	Sub map[string]RecM `json:"sub,omitempty"`
	Arr [1][]RecM       `json:"arr"`
}

// ReuseKey is a map key whose MarshalText returns the same scratch buffer on every call
// (legal: the interface does not say the result must be fresh; encoding/json copies it at once).
// Only used by single-goroutine encode workloads.
type ReuseKey int

var reuseScratch []byte

func (k ReuseKey) MarshalText() ([]byte, error) {
	reuseScratch = append(reuseScratch[:0], "key-"...)
	reuseScratch = strconv.AppendInt(reuseScratch, int64(k), 10)
	return reuseScratch, nil
}

// EncodeOnly are additional types for the encoding direction.
var EncodeOnly = []reflect.Type{reflect.TypeOf(ReuseKey(0)), reflect.TypeOf(RecP{}), reflect.TypeOf(RecM{}), reflect.TypeOf(PtrKeyMap{}), reflect.TypeOf(PShapeJ{}), reflect.TypeOf(PShapeT{}), reflect.TypeOf(PShapeArr{}), reflect.TypeOf(PShapes{})}

// All is the list handed to the generators.
var All = []reflect.Type{
	reflect.TypeOf(NamedInt(0)), reflect.TypeOf(NamedUint8(0)), reflect.TypeOf(NamedString("")), reflect.TypeOf(NamedBool(false)),
	reflect.TypeOf(NamedFloat(0)), reflect.TypeOf(NamedBytes(nil)), reflect.TypeOf(NamedInt8Slice(nil)), reflect.TypeOf(NamedUint8Slice(nil)),
	reflect.TypeOf(NamedMap(nil)), reflect.TypeOf(NamedSlice(nil)),
	reflect.TypeOf(TextV{}), reflect.TypeOf(TextP{}), reflect.TypeOf(TextKey("")), reflect.TypeOf(IntKeyText(0)),
	reflect.TypeOf(JSONV{}), reflect.TypeOf(JSONP{}), reflect.TypeOf(JSONNum(0)), reflect.TypeOf(Both{}), reflect.TypeOf(Hex(nil)),
	reflect.TypeOf(Tree{}), reflect.TypeOf(List{}), reflect.TypeOf(Ping{}), reflect.TypeOf(Pong{}),
	reflect.TypeOf(Base{}), reflect.TypeOf(Mid{}), reflect.TypeOf(Embeds{}), reflect.TypeOf(EmbedPtr{}), reflect.TypeOf(Conflict{}), reflect.TypeOf(TaggedConflict{}),
	reflect.TypeOf(EmbMarshaler{}), reflect.TypeOf(Tags{}), reflect.TypeOf(CaseFold{}), reflect.TypeOf(Big{}), reflect.TypeOf(D1{}),
	reflect.TypeOf(Ifaces{}), reflect.TypeOf(HasDefPtr{}), reflect.TypeOf(MapKeys{}), reflect.TypeOf(PtrMarsh{}),
}

// PtrRecvOnly are the types whose marshaling methods have pointer receivers
// only: whether encoding/json calls them depends on addressability.
var PtrRecvOnly = map[reflect.Type]bool{reflect.TypeOf(JSONP{}): true, reflect.TypeOf(TextP{}): true}

// Erroring are types whose codecs are expected to fail (kept apart so that the
// generators can dose them).
var Erroring = []reflect.Type{
	reflect.TypeOf(JSONErr{}), reflect.TypeOf(JSONBad{}), reflect.TypeOf(Unsup{}), reflect.TypeOf(UnsupHard{}),
}
