#!/bin/bash
# usage: c01sum.sh <logfile...> — compact list of C01/C03-style violations
cat "$@" | grep '^V' | python3 -c "
import sys,json
n=0
for l in sys.stdin:
    v=json.loads(l[2:]); d=v['detail']
    if not isinstance(d,dict): print(v['case'], v['msg'][:60], str(d)[:200]); continue
    print(v['case'], v['msg'][:34], '|', d.get('cfg',''), '|', d.get('type','')[:${W:-90}], '| DOC', d.get('doc','')[:${W:-90}], '| L', d.get('label','')[:40], '| SE', d.get('sonic_err','')[:50], '| JE', d.get('std_err','')[:50], '| S', d.get('sonic','')[:60], '| J', d.get('std','')[:60])
    n+=1
    if n>=${N:-40}: break
"
