#!/usr/bin/env python3
"""Rewrites the table between <!-- SEEDED-TABLE-BEGIN/END --> in DESIGN.md from seeded/*/meta.json."""
import json, glob, re, os
rows = []
for f in sorted(glob.glob('/verif/seeded/C*/meta.json')):
    m = json.load(open(f))
    res = m.get('checks_run_against_it') or []
    own = [r for r in res if r['check'] == m['property_broken'] and r['tier'] == 'quick']
    oth = [r for r in res if r['check'] != m['property_broken']]
    def fmt(r):
        v = {0: 'MISSED', 1: 'caught', 2: 'inconclusive'}.get(r['exit'], '?')
        s = f"{r['check']} {v}"
        if r['exit'] == 1:
            s += f" ({r['violations']} violations"
            if r.get('violation_classes'):
                c = r['violation_classes'][0].split('|')
                s += ': ' + (c[-1].strip()[:70])
            s += ')'
        return s
    title = re.sub(r'^(C\d\d\s*/\s*)?(change\s+)?[A-D]\s*[—-]\s*', '', m['title'], flags=re.I).strip()
    title = re.sub(r'^C\d\d-[A-D]\s*[—-]\s*', '', title)
    cf = m.get('confirmed_by_me') or {}
    conf = 'demo ' + ('ok' if cf.get('demo_on_clean_tree') == 'passes' and cf.get('demo_with_patch') == 'fails' else '??')
    if 'passes' in (cf.get('suite_with_patch') or ''):
        conf += ', suite ok'
    rows.append(f"| {m['id']} | {title[:110]} | {'; '.join(fmt(r) for r in own) or 'not run'}{('; also ' + '; '.join(fmt(r) for r in oth)) if oth else ''} | {conf} |")
table = "| change | what it does | registered quick check of its property (VERIF_SEED=1) | confirmed by me |\n|---|---|---|---|\n" + "\n".join(rows)
p = '/verif/DESIGN.md'
s = open(p).read()
s = re.sub(r'<!-- SEEDED-TABLE-BEGIN -->.*<!-- SEEDED-TABLE-END -->', '<!-- SEEDED-TABLE-BEGIN -->\n' + table + '\n<!-- SEEDED-TABLE-END -->', s, flags=re.S)
open(p, 'w').write(s)
print(len(rows), 'rows')
