#!/bin/bash
# usage: adopt.sh <prop> <C|D> — takes a sub-agent's deliverables from /tmp/w4out/<prop>/ into seeded/<prop>-<X>/
p=$1; x=$2; src=/tmp/w4out/$p; dst=/verif/seeded/$p-$x
[ -f $src/patch_$x.diff ] && [ -f $src/demo_${x}_test.go ] || { echo "missing deliverables for $p-$x"; exit 1; }
mkdir -p $dst
cp $src/patch_$x.diff $dst/patch.diff
cp $src/demo_${x}_test.go $dst/demo_test.go
[ -f $src/report_$x.md ] && cp $src/report_$x.md $dst/agent_meta.md
pk=$(grep -m1 '^package ' $dst/demo_test.go | awk '{print $2}')
case "$pk" in
  sonic_test|sonic) ;;
  ast|ast_test) echo ast > $dst/DEMO_DIR;;
  *) echo "NOTE: demo package is $pk — set $dst/DEMO_DIR by hand";;
esac
echo "adopted $p-$x (package $pk)"
