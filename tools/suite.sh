#!/bin/bash
# usage: suite.sh [logfile] — the repository's pinned suite (hooks off) on /repo's working tree; prints failing tests and a summary line
log=${1:-/tmp/suite.json}
unset GOFLAGS GOWORK
export GOPROXY=off GOSUMDB=off GOTOOLCHAIN=local
: > $log
for m in $(cat /w/out/gomods.txt); do MF=$(cd /repo/$m && . /w/out/goenv.sh && gomodflag); (cd /repo/$m && go test $MF -json -vet=off -count=1 -timeout 25m ./...) >> $log 2>&1; done
python3 - "$log" <<'PY'
import sys,json
p=f=0; fails=[]
for l in open(sys.argv[1],errors='replace'):
    try: e=json.loads(l)
    except Exception: continue
    if e.get('Test') and e.get('Action')=='pass': p+=1
    if e.get('Action')=='fail':
        f+=1; fails.append((e.get('Package'),e.get('Test')))
print("SUITE pass=%d fail=%d"%(p,f))
for x in fails[:30]: print("  FAIL",x)
PY
