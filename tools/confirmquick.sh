#!/bin/bash
# usage: confirmquick.sh [ids...] — demo-only confirmation of seeded changes on /repo's HEAD; prints one line per change
ids="$@"
[ -z "$ids" ] && ids=$(ls /verif/seeded | grep '^C[0-9][0-9]-')
unset GOFLAGS GOWORK
for id in $ids; do
  sub=.
  grep -q "^package ast" /verif/seeded/$id/demo_test.go && sub=ast
  [ -f /verif/seeded/$id/DEMO_DIR ] && sub=$(cat /verif/seeded/$id/DEMO_DIR)
  cp /verif/seeded/$id/confirm.log /tmp/confirm.keep.$id 2>/dev/null
  /verif/tools/confirm_seed.sh $id $sub quick >/dev/null 2>&1
  l=/verif/seeded/$id/confirm.log
  clean=$(sed -n '/demo on clean/,/demo with patch/p' $l | grep -c "^ok")
  patched=$(sed -n '/demo with patch/,$p' $l | grep -c "FAIL")
  echo "$id clean_ok=$clean patched_fail=$patched"
done
