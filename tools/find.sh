#!/bin/bash
# usage: find.sh <prop> <seed> <case> [mode] — rebuilds the worker and replays case N of every batch, printing the V/K lines found
prop=$1; seed=$2; cs=$3; mode=${4:-}
export GOFLAGS=-mod=mod GOPROXY=off GOSUMDB=off GOTOOLCHAIN=local GOWORK=off
(cd /verif/harness && go build -tags verif -o /tmp/worker-test ./cmd/worker) || exit 1
W=$(python3 -c "import json;print(','.join(f['id'] for f in json.load(open('/verif/known_findings.json'))['findings'] if f['status']=='open'))")
for b in $(seq 0 15); do
  rm -f /tmp/one.log; /tmp/worker-test -prop $prop -tier ${TIER:-quick} -seed $seed -batch $b -nbatch ${NB:-16} -only $cs -mode "$mode" -waive "$W" -out /tmp/one.log >/dev/null 2>&1
  grep -h '^[VK]' /tmp/one.log | sed "s/^/b$b /"
done
