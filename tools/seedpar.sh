#!/bin/bash
# usage: seedpar.sh <seed-id> <prop> [tier] — run a check against a seeded change WITHOUT touching /repo:
# a scratch worktree of /repo's HEAD gets the patch, VERIF_REPO points the worker build at it, evidence goes
# to a private directory. Development aid for running many seeds in parallel; the procedure of record
# (git -C /repo apply; ./vcheck; git -C /repo checkout -- .) is tools/seedtest.sh.
id=$1; prop=$2; tier=${3:-quick}
wt=/tmp/sw/$id-$prop-$$
mkdir -p /tmp/sw
git -C /repo worktree add -q --detach $wt HEAD || exit 2
trap 'git -C /repo worktree remove --force '$wt' >/dev/null 2>&1; git -C /repo worktree prune' EXIT
(cd $wt && git apply /verif/seeded/$id/patch.diff) || { echo "$id $prop: PATCH DOES NOT APPLY"; exit 3; }
cd ${VERIF_HOME:-/verif}
t0=$(date +%s)
VERIF_REPO=$wt ./vcheck $prop $tier > /tmp/sw/$id-$prop.out 2>&1; rc=$?
t1=$(date +%s)
echo "$id $prop rc=$rc wall=$((t1-t0))s $(grep -a -m1 '^HELD\|^INCONCLUSIVE\|^RESULT' /tmp/sw/$id-$prop.out | cut -c1-120)"
grep -a "class:" /tmp/sw/$id-$prop.out | head -${CL:-3} | cut -c1-180
