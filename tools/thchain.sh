#!/bin/bash
# usage: thchain.sh <props...> — runs the thorough tier of each property in turn (development aid; prints one line per property)
for p in "$@"; do s=$(date +%s); ./vcheck $p thorough > th.$p.log 2>&1; rc=$?; echo "$p rc=$rc wall=$(( $(date +%s)-s ))s $(grep -a "^HELD\|^VIOLATION\|^INCONCLUSIVE" th.$p.log | head -3 | cut -c1-200 | tr "\n" " ")"; done
