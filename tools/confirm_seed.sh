#!/bin/bash
# usage: confirm_seed.sh <seed-id> <demo-subdir ('.' or 'ast' ...)> [quick]
# Confirms a seeded change in a scratch worktree of /repo HEAD: demo fails with
# the patch and passes without it; the repository's suite passes with the patch.
id=$1; sub=${2:-.}; quick=${3:-}
S=/verif/seeded/$id
W=/tmp/confirm/$id
flags=$(cat $S/DEMO_FLAGS 2>/dev/null)   # e.g. -race for demonstrations whose detector is the race detector
export GOPROXY=off GOSUMDB=off GOTOOLCHAIN=local
rm -rf $W; mkdir -p /tmp/confirm
git -C /repo worktree add --detach $W HEAD >/dev/null 2>&1 || { echo "worktree failed"; exit 2; }
log=$S/confirm.log; : > $log
cd $W
cp $S/demo_test.go $W/$sub/zz_seed_demo_test.go
echo "== demo on clean tree ($(git rev-parse --short HEAD))" >> $log
(cd $W/$sub && go test $flags -vet=off -count=1 -run "${DEMO_RUN:-.*[Dd]emo.*|TestC[0-9]+.*}" . 2>&1 | tail -5) >> $log
clean_rc=$(tail -5 $log | grep -c "^ok")
git apply $S/patch.diff || { echo "patch does not apply" >> $log; }
echo "== demo with patch" >> $log
(cd $W/$sub && go test $flags -vet=off -count=1 -run "${DEMO_RUN:-.*[Dd]emo.*|TestC[0-9]+.*}" . 2>&1 | grep -v "^\s" | tail -8) >> $log
rm -f $W/$sub/zz_seed_demo_test.go
if [ -z "$quick" ]; then
echo "== suite with patch" >> $log
for m in . ./loader ./issue_test ./generic_test ./fuzz ./external_jsonlib_test; do
  (cd $W/$m && go test -vet=off -count=1 -p 6 -timeout 40m ./... 2>&1 | grep -v "no test files" | grep -v "^ok" | tail -15) >> $log
  echo "-- module $m done" >> $log
done
# issue_test.TestPretouchSynteaRoot compares wall-clock ratios of successive decodes and fails on a loaded
# machine with and without any change: when it is the only failure it is re-run alone (up to 4 times)
if grep -q -- "--- FAIL: TestPretouchSynteaRoot" $log && [ "$(grep -c -- '^--- FAIL' $log)" = "1" ]; then
  for k in 1 2 3 4; do
    if (cd $W/issue_test && go test -vet=off -count=1 -run 'TestPretouchSynteaRoot$' . 2>&1 | grep -q "^ok"); then
      echo "-- TestPretouchSynteaRoot re-run alone: ok (attempt $k)" >> $log; break
    else
      echo "-- TestPretouchSynteaRoot re-run alone: failed (attempt $k)" >> $log
    fi
  done
fi
fi
cd /; git -C /repo worktree remove --force $W
echo "confirmed $id: see $log"
