#!/bin/bash
# usage: gsum.sh <run-dir> [N] — generic compact list of violations of the last run: api | msg | selected detail keys
d=$1; N=${2:-12}
cat $d/*.log | grep '^V' | python3 -c "
import sys,json
n=0
for l in sys.stdin:
    v=json.loads(l[2:]); d=v['detail']
    if isinstance(d,dict):
        ks=[k for k in ('what','label','opts','type','err','out','want','got','value','doc','diff') if k in d]
        s=' | '.join('%s=%s'%(k,str(d[k])[:${W:-70}]) for k in ks)
    else: s=str(d)[:300]
    print(v['case'], v['api'][:30], '|', v['msg'][:60], '|', s)
    n+=1
    if n>=$N: break
"
