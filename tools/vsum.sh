#!/bin/bash
# usage: vsum.sh <run-dir> [run-prefix] — classes of V lines with one short sample each
d=$1; pre=${2:-}
cat $d/${pre}*.log | grep '^V' | python3 -c "
import sys,json
seen={}
for l in sys.stdin:
    try: v=json.loads(l[2:])
    except Exception: continue
    k=(v['api'],v['msg'][:70])
    seen.setdefault(k,[]).append(v)
for k,vs in sorted(seen.items(), key=lambda kv:-len(kv[1]))[:40]:
    print('%5d %s | %s' % (len(vs),k[0],k[1]))
    print('        case=%d %s' % (vs[0]['case'], json.dumps(vs[0].get('detail'))[:${VSUM_W:-260}]))
"
