#!/usr/bin/env python3
"""Builds /verif/seeded/<id>/meta.json from what is on disk:
agent_meta.md (the sub-agent's description), patch.diff, confirm.log (my own
confirmation in a scratch worktree) and seeded/RESULTS.*.txt (my checks run
against the change). usage: mkmeta.py [ids...]"""
import json, os, re, sys, glob, subprocess

S = '/verif/seeded'

def section(md, *names):
    # text of the first section whose heading starts with one of names
    parts = re.split(r'^(#+ .*)$', md, flags=re.M)
    for i in range(1, len(parts), 2):
        h = parts[i].lstrip('# ').strip().lower()
        if any(h.startswith(n) for n in names):
            return parts[i + 1].strip()
    return ''

def results(sid):
    out = []
    for f in sorted(glob.glob(S + '/RESULTS.*.txt')):
        tier = f.split('.')[-2]
        for l in open(f, errors='replace'):
            m = re.match(r'\S+ (\S+) (C\d\d) rc=(\d+) wall=(\d+)s (.*)', l.strip())
            if not m or m.group(1) != sid:
                continue
            rc = int(m.group(3))
            rest = m.group(5)
            vm = re.search(r'violations=(\d+)', rest)
            classes = [c.strip() for c in re.findall(r'class:\s+\d+\s+([^|]*\|[^|]*\|[^:]*?)(?=\s+class:|$)', rest)]
            out.append({'check': m.group(2), 'tier': tier, 'exit': rc,
                        'verdict': {0: 'HELD (missed)', 1: 'VIOLATION (caught)', 2: 'INCONCLUSIVE'}.get(rc, 'error'),
                        'violations': int(vm.group(1)) if vm else 0, 'wall_s': int(m.group(4)),
                        'violation_classes': classes[:3]})
    # keep the last entry per (check, tier)
    last = {}
    for r in out:
        last[(r['check'], r['tier'])] = r
    return list(last.values())

def confirm(sid):
    p = f'{S}/{sid}/confirm.log'
    if not os.path.exists(p):
        return None
    t = open(p, errors='replace').read()
    head = re.search(r'demo on clean tree \((\w+)\)', t)
    clean, patched, suite = '', '', ''
    m = re.search(r'== demo on clean tree.*?\n(.*?)== demo with patch\n(.*?)(== suite with patch\n(.*))?$', t, flags=re.S)
    if m:
        clean, patched, suite = m.group(1), m.group(2), m.group(4) or ''
    res = {
        'repo_head': head.group(1) if head else '',
        'demo_on_clean_tree': 'passes' if re.search(r'^ok\s', clean, flags=re.M) else 'DOES NOT PASS',
        'demo_with_patch': 'fails' if 'FAIL' in patched else 'DOES NOT FAIL',
        'log': 'confirm.log',
    }
    if suite:
        bad = [l for l in suite.split('\n') if l.startswith(('FAIL', '--- FAIL', 'panic'))]
        if 'TestPretouchSynteaRoot re-run alone: ok' in suite and sum(1 for l in bad if l.startswith('--- FAIL')) == 1:
            # a wall-clock ratio test that fails on a loaded machine with and without the change; it passed alone
            bad = []
            flaky_note = ' (issue_test.TestPretouchSynteaRoot, a wall-clock ratio test, failed in the loaded full run and passed when re-run alone)'
        else:
            flaky_note = ''
        res['suite_with_patch'] = 'passes (all 6 modules, unedited)' + flaky_note if not bad and suite.count('done') >= 6 else ('FAILS: ' + '; '.join(bad[:3]) if bad else 'incomplete')
    else:
        res['suite_with_patch'] = 'not re-run by me on this head (the sub-agent ran it, see agent_meta.md)'
    return res

def main():
    ids = sys.argv[1:] or sorted(d for d in os.listdir(S) if re.match(r'C\d\d-', d))
    for sid in ids:
        d = f'{S}/{sid}'
        md = open(f'{d}/agent_meta.md', errors='replace').read() if os.path.exists(f'{d}/agent_meta.md') else ''
        title = (re.search(r'^# (.*)$', md, flags=re.M) or [None, sid])[1]
        patch = open(f'{d}/patch.diff', errors='replace').read()
        files = re.findall(r'^diff --git a/(\S+)', patch, flags=re.M)
        demo = open(f'{d}/demo_test.go', errors='replace').read()
        pkg = (re.search(r'^package (\w+)', demo, flags=re.M) or [None, '?'])[1]
        sub = 'ast' if pkg.startswith('ast') else '.'
        if os.path.exists(f'{d}/DEMO_DIR'):
            sub = open(f'{d}/DEMO_DIR').read().strip()
        meta = {
            'id': sid,
            'property_broken': sid.split('-')[0],
            'title': title,
            'files_changed': files,
            'patch_lines': sum(1 for l in patch.split('\n') if re.match(r'^[+-][^+-]', l)),
            'what_it_is': section(md, 'what the change is', 'the change', 'change')[:1800],
            'why_it_breaks_the_property': section(md, 'why it breaks')[:1800],
            'needs_in_order_to_manifest': section(md, 'what is needed for it to manifest', 'what it needs in order to manifest', 'what it needs')[:2500],
            'demonstration': {'file': 'demo_test.go', 'package': pkg, 'copy_to': 'repository root' if sub == '.' else './' + sub,
                              'run': f'go test -vet=off -count=1 -run "TestC[0-9]+.*|.*[Dd]emo.*" ./{sub}'.replace('./.', '.')},
            'origin': 'written by a sub-agent that saw only the property text and its own scratch worktree (agent_meta.md is its report)',
            'confirmed_by_me': confirm(sid),
            'what_i_ran': [
                'tools/confirm_seed.sh %s %s  (scratch worktree of /repo HEAD under /tmp/confirm: demo on the clean tree, git apply patch.diff, demo again, then the unedited suite of all 6 modules; worktree removed afterwards)' % (sid, sub),
                'tools/seedpar.sh %s <property> quick  (scratch worktree + VERIF_REPO: the registered check built against the patched copy; /repo untouched) — results below' % sid,
            ],
            'checks_run_against_it': results(sid),
        }
        note = f'{d}/NOTE.md'
        if os.path.exists(note):
            meta['note'] = open(note).read().strip()
        json.dump(meta, open(f'{d}/meta.json', 'w'), indent=1, ensure_ascii=False)
    print('meta.json written for', len(ids), 'changes')

if __name__ == '__main__':
    main()
