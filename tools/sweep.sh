#!/bin/bash
# usage: sweep.sh <lanes> [tier] [ids...] — every seeded change against the check of its own property, run from a
# private snapshot of /verif (so that edits to /verif while the sweep runs do not disturb it) in <lanes> parallel
# lanes; scratch worktrees of /repo, /repo untouched. Results are appended to seeded/RESULTS.<tier>.txt.
lanes=${1:-2}; tier=${2:-quick}; shift; shift
ids="$@"
[ -z "$ids" ] && ids=$(ls /verif/seeded | grep '^C[0-9][0-9]-')
snap=/tmp/vsnap.$$
rm -rf $snap; mkdir -p $snap
rsync -a --exclude .work --exclude .git --exclude 'evidence/replay' /verif/ $snap/
export VERIF_HOME=$snap
out=/verif/seeded/RESULTS.$tier.txt
echo "$ids" | tr ' ' '\n' | xargs -P $lanes -I{} bash -c 'id={}; prop=${id%%-*}; line=$(nice -n 10 /verif/tools/seedpar.sh $id $prop '$tier' 2>&1 | head -4 | tr "\n" " " | cut -c1-600); echo "$(date +%H:%M) $line" >> '$out
rm -rf $snap
echo SWEEPDONE
