#!/bin/bash
# usage: c03sum.sh <logfile...> — compact list of encode violations
cat "$@" | grep '^V' | python3 -c "
import sys,json
n=0
for l in sys.stdin:
    v=json.loads(l[2:]); d=v['detail']
    if not isinstance(d,dict): print(v['case'], v['msg'][:60], str(d)[:200]); continue
    print(v['case'], v['api'][:22], v['msg'][:30], '|', d.get('how',''), '|', d.get('type','')[:${W:-100}], '| SE', d.get('sonic_err','')[:60], '| JE', d.get('std_err','')[:60], '| DIFF', d.get('diff','')[:${DW:-220}], '| S', d.get('sonic_out','')[:${OW:-0}], '| J', d.get('std_out','')[:${OW:-0}])
    n+=1
    if n>=${N:-40}: break
"
