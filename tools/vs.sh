#!/bin/bash
# usage: vs.sh <run-dir> [maxlines] — one line per violation class with ONE short sample (hard output cap)
d=$1; N=${2:-10}
cat $d/*.log | grep '^V' | python3 -c "
import sys,json
seen={}; order=[]
for l in sys.stdin:
    try: v=json.loads(l[2:])
    except Exception: continue
    k=(v['api'].split('(')[0][:34],v['msg'][:46])
    if k not in seen: seen[k]=[0,v]; order.append(k)
    seen[k][0]+=1
for k in sorted(order,key=lambda k:-seen[k][0])[:$N]:
    n,v=seen[k]; d=v.get('detail')
    if isinstance(d,dict): s=' '.join('%s=%s'%(a,str(b)[:${W:-70}]) for a,b in d.items())
    else: s=str(d)[:200]
    print(('%5d %s | %s | case %d: %s'%(n,k[0],k[1],v['case'],s))[:${LW:-420}])
"
