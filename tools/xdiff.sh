#!/bin/bash
# usage: xdiff.sh <prop> <k> — replay violation k of the last run of <prop> in both processes and show what differs
prop=$1; k=${2:-0}
f=/verif/evidence/replay/$prop-${TIER:-quick}-s${VERIF_SEED:-1}-$k.json
cd /verif && ./vcheck $prop --replay $f > /tmp/xdiff.out 2>&1
python3 - <<PY
import re
s=open('/tmp/xdiff.out',errors='replace').read()
parts=s.split('--- replay run=')
for p in parts[1:]:
    name=p.split(' ',1)[0]
    keep=[l for l in p.split('\n') if l.startswith(("TYPE","CFG","DOC","HOW","VALUE","ERR","OUT","KIND","TRANSCRIPT","MULTI"))]
    print('==',name)
    for l in keep: print('  ',l[:${W:-600}])
PY
