#!/bin/bash
# usage: q.sh [-s seed] props... — quick tier of each property in turn on the tree as it is; one line each
seed=1; [ "$1" = "-s" ] && { seed=$2; shift; shift; }
for p in "$@"; do s=$(date +%s); VERIF_SEED=$seed ./vcheck $p quick > /tmp/q.$p.$seed.log 2>&1; rc=$?; echo "$p seed=$seed rc=$rc wall=$(( $(date +%s)-s ))s $(grep -a "^HELD\|^VIOLATION\|^INCONCLUSIVE" /tmp/q.$p.$seed.log | head -2 | cut -c1-150 | tr "\n" " ")"; done
