#!/bin/bash
# usage: seedall.sh [tier] [ids...] — every seeded change against the check of its own property (scratch worktrees, /repo untouched)
tier=${1:-quick}; shift
ids="$@"
[ -z "$ids" ] && ids=$(ls /verif/seeded | grep '^C[0-9][0-9]-')
out=/verif/seeded/RESULTS.$tier.txt
for id in $ids; do
  prop=${id%%-*}
  line=$(/verif/tools/seedpar.sh $id $prop $tier 2>&1 | head -4 | tr '\n' ' ' | cut -c1-600)
  echo "$(date +%H:%M) $line" | tee -a $out
done
