#!/bin/bash
# usage: seedtest.sh <patch.diff> <prop> [tier] — apply a seeded change to /repo, run the check, undo it
patch=$(realpath $1); prop=$2; tier=${3:-quick}
cd /repo || exit 2
if [ -n "$(git status --porcelain --untracked-files=no)" ]; then echo "repo dirty"; exit 2; fi
git apply "$patch" 2>/dev/null || { echo "PATCH DOES NOT APPLY"; git checkout -- . ; exit 3; }
git reset -q 2>/dev/null
cd /verif
t0=$(date +%s)
./vcheck $prop $tier > /tmp/seedtest.out 2>&1; rc=$?
t1=$(date +%s)
grep -m3 "^VIOLATION\|^HELD\|^INCONCLUSIVE\|^RESULT" /tmp/seedtest.out | cut -c1-160
grep "class:" /tmp/seedtest.out | head -${CL:-4} | cut -c1-200
echo "rc=$rc wall=$((t1-t0))s"
cp evidence/$prop.json /tmp/seedtest.evidence.json 2>/dev/null
git -C /verif checkout -- evidence 2>/dev/null
git -C /repo checkout -- . && git -C /repo status --porcelain --untracked-files=no | head -3
