#!/bin/bash
# usage: c01case.sh <run-dir> <case> [case...] — show details of given cases
d=$1; shift
for c in "$@"; do
cat $d/*.log | grep '^V' | python3 -c "
import sys,json
want=$c
for l in sys.stdin:
    v=json.loads(l[2:]); d=v['detail']
    if v['case']!=want or not isinstance(d,dict): continue
    print('CASE',want,v['msg'][:50],'|',d.get('cfg'),'| prefill',d.get('prefill'),'|',d.get('label','')[:120])
    print('  TYPE',d.get('type','')[:${TW:-300}])
    print('  DOC ',d.get('doc','')[:${DW:-400}])
    print('  SE',d.get('sonic_err','')[:150],' JE',d.get('std_err','')[:150])
    print('  S',d.get('sonic','')[:${SW:-260}])
    print('  J',d.get('std','')[:${SW:-260}])
    break
"
done
