#!/bin/bash
# usage: xsum.sh <prop> <run-dir> <other-run> [N] — replay up to N cross-process violations, one block each
prop=$1; dir=$2; other=$3; N=${4:-10}
export GOFLAGS=-mod=mod GOPROXY=off GOSUMDB=off GOTOOLCHAIN=local GOWORK=off
(cd /verif/harness && go build -tags verif -o /tmp/worker-x ./cmd/worker) || exit 1
python3 - "$prop" "$dir" "$other" "$N" <<'PY'
import sys,json,subprocess,os,glob,re
prop,d,other,N=sys.argv[1],sys.argv[2],sys.argv[3],int(sys.argv[4])
# recompute mismatches from logs
def digs(path):
    m={}
    for l in open(path,errors='replace'):
        if l.startswith('D '):
            p=l.split(); m[int(p[1])]=p[2].strip() if len(p)<4 else p[2].strip()+' FLAGS '+p[3]
    return m
WAIVE=','.join(f['id'] for f in json.load(open('/verif/known_findings.json'))['findings'] if f['status']=='open')
envs={'jit':{}, 'optdec':{'SONIC_USE_OPTDEC':'1'}, 'optdec-fastmap':{'SONIC_USE_OPTDEC':'1','SONIC_USE_FASTMAP':'1'}, 'vm':{'SONIC_ENCODER_USE_VM':'1'}, 'sse':{'SONIC_MODE':'noavx2'}, 'avx2':{}}
base=[k for k in ('jit','avx2') if glob.glob(f'{d}/{k}.b0.log')][0]
nb=len(glob.glob(f'{d}/{base}.b*.log'))
shown=0
for b in range(nb):
    A=digs(f'{d}/{base}.b{b}.log'); B=digs(f'{d}/{other}.b{b}.log')
    for i in sorted(A):
        if i in B and A[i].split()[0]!=B[i].split()[0] and 'FLAGS' not in A[i] and 'FLAGS' not in B[i]:
            print(f'### batch {b} case {i}: {base}={A[i]} {other}={B[i]}')
            for name in (base,other):
                env=dict(os.environ); env.update(envs[name])
                out=subprocess.run(['/tmp/worker-x','-waive',WAIVE,'-prop',prop,'-tier','quick','-seed',os.environ.get('VERIF_SEED','1'),'-batch',str(b),'-nbatch',str(nb),'-only',str(i),'-v'],env=env,capture_output=True,text=True,errors='replace').stdout
                for l in out.split('\n'):
                    if l.startswith(('TYPE','CFG','DOC','HOW','KIND')) and name==base: print('  ',l[:int(os.environ.get('W','260'))])
                    if l.startswith(('VALUE','ERR','OUT','TRANSCRIPT')): print('  ',name,l[:int(os.environ.get('W','260'))])
            shown+=1
            if shown>=N: sys.exit(0)
PY
