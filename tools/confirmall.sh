#!/bin/bash
# usage: confirmall.sh [ids...] — re-confirms seeded changes on /repo's HEAD (demo passes clean, fails with the patch, suite passes with the patch); low priority
ids="$@"
[ -z "$ids" ] && ids=$(ls /verif/seeded | grep '^C[0-9][0-9]-')
unset GOFLAGS GOWORK
for id in $ids; do
  sub=.
  grep -q "^package ast" /verif/seeded/$id/demo_test.go && sub=ast
  [ -f /verif/seeded/$id/DEMO_DIR ] && sub=$(cat /verif/seeded/$id/DEMO_DIR)
  nice -n 15 /verif/tools/confirm_seed.sh $id $sub
done
echo ALLDONE
