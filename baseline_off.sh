#!/bin/bash
# Runs the repository's pinned test suite with the verification build tag OFF
# (same command as /root/.vp/BASELINE.json).
for m in $(cat /w/out/gomods.txt); do MF=$(cd /repo/$m && . /w/out/goenv.sh && gomodflag); (cd /repo/$m && go test $MF -json -vet=off -count=1 -timeout 25m ./...); done
